"""C06  The Shapley value is the average marginal contribution over all orderings."""
from __future__ import annotations

from props import scenarios as S

LEVEL = "proof"


def bounded_inputs(run, n, count):
    for i in range(count):
        d = {}
        for c in range(1, 1 << n):
            d[f"v{c}"] = float(run.rng.randint(-20, 20)) if i % 2 == 0 else run.rng.uniform(-5, 5)
        yield d


def scaled_inputs(run, n, count):
    """The same games times a power of two (exact in floats); the tolerance floor follows the scale ("__unit__")."""
    for k, d in enumerate(bounded_inputs(run, n, count)):
        sc = 2.0 ** (-20, -30, -40, 20)[k % 4]
        e = {key: v * sc for key, v in d.items()}
        e["__unit__"] = sc
        yield e


def weights_check(run, upto):
    """Exhaustive over the player counts a float64 factorial can express: the contribution coefficients of the real helper
    are s! (n-1-s)! for every n (exact Python integers as the reference; correctly rounded doubles expected)."""
    from math import factorial
    from pyvc.mode import native_pkg
    sh = native_pkg().mod("shapley")
    f = getattr(sh, "_get_contributions", None)
    rows = []
    if f is None:
        run.exhaustive.append({"label": "contribution coefficients", "rows": [], "exhaustive": False,
                               "space": "helper _get_contributions not present any more: covered by the large-n run only"})
        return
    bad = None
    for n in range(1, upto + 1):
        got = [float(x) for x in f(n)]
        want = [float(factorial(s) * factorial(n - 1 - s)) for s in range(n)]
        ok = len(got) == n and all(abs(g - w) <= 4e-16 * abs(w) for g, w in zip(got, want))
        run.native_evals += 1
        run.native_distinct.add(("weights", n))
        if not ok and bad is None:
            bad = {"n": n, "got": got[:4], "expected": want[:4]}
    run.exhaustive.append({"label": "contribution coefficients s!(n-1-s)! of the real helper", "rows": [{"n_upto": upto, "failure": bad}],
                           "exhaustive": True, "space": f"n = 1..{upto}"})
    if bad:
        run._report_violation(f"weights[n={bad['n']}]/coefficients_are_factorial_products", S.sc_shapley, {"n": bad["n"]}, bad, True,
                              detail={"layer": "exhaustive over player counts", "witness": bad})


def large_n_check(run, n):
    """Bounded: the public entry point at a player count where 64-bit integer factorials no longer fit (n >= 22):
    in an additive game every player's Shapley value is its singleton value; one player computed."""
    import numpy as np
    from pyvc.mode import native_pkg
    P = native_pkg()
    sh, game_m = P.mod("shapley"), P.mod("game")
    w = np.array([float(run.rng.randint(1, 9)) for _ in range(n)])
    ids = np.arange(1 << n)
    vals = np.zeros(1 << n)
    for i in range(n):
        vals += ((ids >> i) & 1) * w[i]
    g = game_m.IncompleteCooperativeGame(n)
    g.set_values(vals)
    i = run.rng.randrange(n)
    phi = float(sh.compute_shapley_value_for_player(i, g))
    run.native_evals += 1
    run.native_distinct.add(("large", n))
    ok = abs(phi - w[i]) <= 1e-9 * max(1.0, abs(w[i]))
    run.bounded.append({"label": f"additive game at n={n}", "evaluations": 1, "failures": int(not ok),
                        "bound": "one player of one additive game; Shapley value must equal the singleton value"})
    if not ok:
        run._report_violation(f"large[n={n}]/additive_game_value", S.sc_shapley, {"n": n}, {"player": i, "phi": phi, "singleton": float(w[i])},
                              True, detail={"layer": "bounded"})


def main(run):
    pkg = run.package()
    run.under_contract(pkg, "shapley", ["_get_contributions", "compute_shapley_value_for_player",
                                        "_shapley_value_for_player", "compute_shapley_value"])
    run.under_contract(pkg, "coalitions", ["exclude_coalition", "player_to_coalition"])
    ns = (2, 3, 4, 5, 6) if run.tier == "quick" else (2, 3, 4, 5, 6, 7)
    for n in ns:
        run.prove(f"shapley[n={n}]", S.sc_shapley, {"n": n, "canary": n == 3},
                  fallback=(lambda n=n: run.bounded_run(f"fallback[n={n}]", S.sc_shapley, {"n": n},
                                                        bounded_inputs(run, n, 100), bound="100 seeded games")))
    for n in ((2, 3, 4, 5, 6) if run.tier == "quick" else (2, 3, 4, 5, 6, 7, 8)):
        pairs = [(0, 1)] if n > 4 else [(a, b) for a in range(n) for b in range(a + 1, n)]
        for a, b in pairs:
            run.prove(f"algebra[n={n},swap={a}{b}]", S.sc_shapley_algebra, {"n": n, "a": a, "b": b})
    for n in ((2, 3, 4, 5) if run.tier == "quick" else (2, 3, 4, 5, 6)):
        run.prove(f"interleaved[n={n}]", S.sc_shapley_interleaved, {"n": n})
    run.discharge()
    for n in ((7, 8) if run.tier == "quick" else (8, 9)):
        cnt = 3 if run.tier == "quick" else 6
        run.bounded_run(f"float[n={n}]", S.sc_shapley, {"n": n}, bounded_inputs(run, n, cnt), tol=1e-9,
                        bound=f"{cnt} seeded games, the n! orderings enumerated by the spec, relative tolerance 1e-9")
    for n in (4, 5):
        run.bounded_run(f"float.scaled[n={n}]", S.sc_shapley, {"n": n}, scaled_inputs(run, n, 8), tol=1e-9,
                        bound="8 seeded games scaled by 2^-20, 2^-30, 2^-40, 2^20; tolerance 1e-9 relative to the scale")
    weights_check(run, 100)
    if run.tier != "quick":
        large_n_check(run, 22)
    return run.finish(
        explanation="Both entry points proved equal, for every real-valued game and every player, to the average marginal "
                    "contribution with coefficients obtained by enumerating the n! orderings; efficiency, null player, "
                    "relabelling (all transpositions for n<=4) and linearity proved on the code's symbolic outputs.")
