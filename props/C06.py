"""C06  The Shapley value is the average marginal contribution over all orderings."""
from __future__ import annotations

from props import scenarios as S

LEVEL = "proof"


def bounded_inputs(run, n, count):
    for i in range(count):
        d = {}
        for c in range(1, 1 << n):
            d[f"v{c}"] = float(run.rng.randint(-20, 20)) if i % 2 == 0 else run.rng.uniform(-5, 5)
        yield d


def main(run):
    pkg = run.package()
    run.under_contract(pkg, "shapley", ["_get_contributions", "compute_shapley_value_for_player",
                                        "_shapley_value_for_player", "compute_shapley_value"])
    run.under_contract(pkg, "coalitions", ["exclude_coalition", "player_to_coalition"])
    ns = (2, 3, 4, 5, 6) if run.tier == "quick" else (2, 3, 4, 5, 6, 7)
    for n in ns:
        run.prove(f"shapley[n={n}]", S.sc_shapley, {"n": n, "canary": n == 3},
                  fallback=(lambda n=n: run.bounded_run(f"fallback[n={n}]", S.sc_shapley, {"n": n},
                                                        bounded_inputs(run, n, 100), bound="100 seeded games")))
    for n in ((2, 3, 4, 5, 6) if run.tier == "quick" else (2, 3, 4, 5, 6, 7, 8)):
        pairs = [(0, 1)] if n > 4 else [(a, b) for a in range(n) for b in range(a + 1, n)]
        for a, b in pairs:
            run.prove(f"algebra[n={n},swap={a}{b}]", S.sc_shapley_algebra, {"n": n, "a": a, "b": b})
    for n in ((2, 3, 4, 5) if run.tier == "quick" else (2, 3, 4, 5, 6)):
        run.prove(f"interleaved[n={n}]", S.sc_shapley_interleaved, {"n": n})
    run.discharge()
    for n in ((7, 8) if run.tier == "quick" else (8, 9)):
        cnt = 3 if run.tier == "quick" else 6
        run.bounded_run(f"float[n={n}]", S.sc_shapley, {"n": n}, bounded_inputs(run, n, cnt), tol=1e-9,
                        bound=f"{cnt} seeded games, the n! orderings enumerated by the spec, relative tolerance 1e-9")
    return run.finish(
        explanation="Both entry points proved equal, for every real-valued game and every player, to the average marginal "
                    "contribution with coefficients obtained by enumerating the n! orderings; efficiency, null player, "
                    "relabelling (all transpositions for n<=4) and linearity proved on the code's symbolic outputs.")
