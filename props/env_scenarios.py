"""Scenarios for the environments, solvers and evaluation (C08(4), C09, C12, C13, C16)."""
from __future__ import annotations

from props.scenarios import (GAPS, NRM, G, assume_class, gap_function, minimal, popcount, scenario)
from spec.sets import by_size


def hidden_game_factory(M, n, computer, cls="sa"):
    """A generator stub (SpecGenerator): each call returns a fresh complete game of the assumed class with
    values g<call>v<c> (v(empty)=0)."""
    game_m = M.mod("game")
    C = M.mod("coalitions").Coalition
    calls = []

    def gen(*_a):
        j = len(calls)
        v = [M.const(0)] + [M.real(f"g{j}v{c}") for c in range(1, 1 << n)]
        if cls:
            assume_class(M, n, v, computer if cls == "auto" else ("sam_apx" if cls == "sam" else "superadditive"))
        g = game_m.IncompleteCooperativeGame(n)
        for c in range(1 << n):
            g.set_value(v[c], C(c))
        calls.append(v)
        return g

    gen.calls = calls
    return gen


def make_env(M, n, computer, gap, budget=None, initial=None, cls="auto"):
    icg = M.mod("icg_gym")
    game_m = M.mod("game")
    bounds = M.mod("bounds")
    co = M.mod("coalitions")
    gen = hidden_game_factory(M, n, computer, cls)
    inc = game_m.IncompleteCooperativeGame(n, bounds.BOUNDS[computer])
    init = [co.Coalition(c) for c in (minimal(n) if initial is None else initial)]
    env = icg.ICG_Gym(inc, gen, init, gap_function(M, gap), done_after_n_actions=budget)
    return env, gen


def put_env_state(M, env, n, v, initial_ids, tag=""):
    """Bring env into an arbitrary EnvInv state for the hidden game v: every explorable coalition c is known
    iff k_c (symbolic), known values are v's, bounds are the computer's output, steps_taken = #chosen."""
    k = {}
    g = env.incomplete_game
    for c in range(1 << n):
        if c in initial_ids:
            k[c] = True
        else:
            k[c] = M.bool(f"{tag}k{c}")
            M.put_row(g, c, k[c], v[c], M.const(0), M.const(0))
    g.compute_bounds()
    env.steps_taken = M.count([k[c] for c in range(1 << n) if c not in initial_ids])
    return k


def gap_spec(M, n, gap, lo, up):
    w = NRM.widths(lo, up)
    if gap == "exploitability":
        return NRM.binomial_gap(M, n, w)
    if gap == "l1_norm":
        return NRM.l1(M, w)
    if gap == "linf_norm":
        return NRM.linf(M, w)
    return None     # l2: compared through its square


def check_gap_equals(M, name, n, gap, value, lo, up):
    """value == gap_spec(table)."""
    if gap == "l2_norm":
        M.check(name, M.and_(value >= 0, value * value == NRM.sumsq(M, NRM.widths(lo, up))))
    else:
        M.check(name, value == gap_spec(M, n, gap, lo, up))


def view(M, env, n):
    g = env.incomplete_game
    lo = [M.val(x) for x in g.get_lower_bounds()]
    up = [M.val(x) for x in g.get_upper_bounds()]
    kn = [M.val(x) for x in g.are_values_known()]
    return kn, lo, up


def check_observers(M, env, n, gap, v, k, initial_ids, explorable, budget, tag="", sa_class=True, LU=None):
    """The observer contracts of ICG_Gym in the state described by (v, k)."""
    kn, lo, up = view(M, env, n)
    norm, surplus = G.normalised(M, n, v)
    mask = [M.val(x) for x in env.action_masks()]
    state = [M.val(x) for x in env.state]
    reward = M.val(env.reward)
    M.check(f"{tag}mask.length", len(mask) == len(explorable))
    M.check(f"{tag}state.length", len(state) == len(explorable))
    for j, c in enumerate(explorable):
        M.check(f"{tag}mask[{j}]", M.iff(mask[j], M.not_(k[c])))
        M.check(f"{tag}state[{j}]", state[j] == M.ite(k[c], norm[c], M.const(0)))
    for c in range(1 << n):
        M.check(f"{tag}known[{c}]", M.iff(kn[c], k[c]))
        M.check(f"{tag}known_value[{c}]", M.implies(k[c], M.and_(lo[c] == v[c], up[c] == v[c])))
        if LU is not None:
            M.check(f"{tag}bounds_fresh[{c}]", M.and_(lo[c] == LU[0][c], up[c] == LU[1][c]))
    check_gap_equals(M, f"{tag}reward.is_negated_gap", n, gap, -reward, lo, up)
    if sa_class:
        M.check(f"{tag}reward.nonpositive", reward <= 0)
    nothing_left = M.and_(*[k[c] for c in explorable])
    degenerate = M.and_(*[up[c] - lo[c] == 0 for c in range(1 << n)])
    steps = M.count([k[c] for c in explorable])
    M.check(f"{tag}steps_taken", M.val(env.steps_taken) == steps)
    used_up = (steps >= budget) if budget is not None else False
    M.check(f"{tag}done", M.iff(M.val(env.done), M.or_(used_up, nothing_left, degenerate)))
    return kn, lo, up, state, reward


def sa_LU(M, n, k, v, computer):
    if computer in ("superadditive", "superadditive_cached"):
        L = G.lower_spec(M, n, k, v)
        return L, G.upper_spec(M, n, k, v, L)
    return None


@scenario
def sc_env_construct_reset(M, n, computer, gap, budget=None, initial=None):
    """__init__ / reset: explorable = all minus initially known (id order; empty and grand always initial); reset draws a
    NEW hidden game, forgets everything but the initial knowledge, steps_taken = 0, returns (state, {"game": full_game})."""
    init_ids = sorted(set(minimal(n) if initial is None else initial) | {0, (1 << n) - 1})
    env, gen = make_env(M, n, computer, gap, budget, initial)
    expl = [c.id for c in env.explorable_coalitions]
    M.check("explorable.is_complement_in_id_order", expl == [c for c in range(1 << n) if c not in init_ids])
    M.check("initially_known.set", sorted(c.id for c in env.initially_known_coalitions) == init_ids)
    # bring it into an arbitrary state, then reset
    v_old = gen.calls[-1]
    k = put_env_state(M, env, n, v_old, init_ids)
    ncalls = len(gen.calls)
    st, info = env.reset()
    M.check("reset.draws_one_new_game", len(gen.calls) == ncalls + 1)
    v = gen.calls[-1]
    k0 = {c: (c in init_ids) for c in range(1 << n)}
    M.check("reset.info_is_full_game", info.get("game") is env.full_game and set(info) == {"game"})
    fg = [M.val(x) for x in env.full_game.get_values()]
    for c in range(1 << n):
        M.check(f"reset.full_game_is_new[{c}]", fg[c] == v[c])
    check_observers(M, env, n, gap, v, k0, init_ids, expl, budget, tag="reset.",
                    LU=sa_LU(M, n, k0, v, computer) if init_ids == minimal(n) else None)
    st = [M.val(x) for x in st]
    now = [M.val(x) for x in env.state]
    for j in range(len(expl)):
        M.check(f"reset.returns_state[{j}]", st[j] == now[j])


@scenario
def sc_env_observers(M, n, computer, gap, budget=None):
    """Observer contracts from an arbitrary EnvInv state (every chosen set at once)."""
    init_ids = minimal(n)
    env, gen = make_env(M, n, computer, gap, budget)
    v = gen.calls[-1]
    k = put_env_state(M, env, n, v, init_ids)
    expl = [c.id for c in env.explorable_coalitions]
    check_observers(M, env, n, gap, v, k, init_ids, expl, budget, LU=sa_LU(M, n, k, v, computer))


@scenario
def sc_env_step(M, n, computer, gap, action, budget=None):
    """step(a) with mask[a] from an arbitrary EnvInv state: reveals exactly explorable[a] with the hidden value,
    recomputes, increments, returns (state, reward, done, False, {"chosen_coalition": id}); EnvInv re-established."""
    init_ids = minimal(n)
    env, gen = make_env(M, n, computer, gap, budget)
    v = gen.calls[-1]
    k = put_env_state(M, env, n, v, init_ids)
    expl = [c.id for c in env.explorable_coalitions]
    c_a = expl[action]
    M.assume(M.not_(k[c_a]))                       # requires: the action is valid
    res = env.step(action)
    M.check("step.returns_5_tuple", len(res) == 5)
    st, rew, done, trunc, info = res
    k2 = dict(k)
    k2[c_a] = True
    kn, lo, up, state, reward = check_observers(M, env, n, gap, v, k2, init_ids, expl, budget, tag="after.",
                                                LU=sa_LU(M, n, k2, v, computer))
    st = [M.val(x) for x in st]
    for j in range(len(expl)):
        M.check(f"step.returns_state[{j}]", st[j] == state[j])
    M.check("step.returns_reward", M.val(rew) == reward)
    M.check("step.returns_done", M.iff(M.val(done), M.val(env.done)))
    M.check("step.truncated_false", trunc is False)
    M.check("step.info", isinstance(info, dict) and set(info) == {"chosen_coalition"} and int(info["chosen_coalition"]) == c_a)


@scenario
def sc_env_step_unstep(M, n, computer, gap, action, budget=None):
    """C08(4)/C13: step(a) then unstep(a) restores observation, reward, done, steps_taken and the whole table."""
    init_ids = minimal(n)
    env, gen = make_env(M, n, computer, gap, budget)
    v = gen.calls[-1]
    k = put_env_state(M, env, n, v, init_ids)
    expl = [c.id for c in env.explorable_coalitions]
    M.assume(M.not_(k[expl[action]]))
    kn0, lo0, up0 = view(M, env, n)
    s0 = [M.val(x) for x in env.state]
    r0, d0, t0 = M.val(env.reward), M.val(env.done), M.val(env.steps_taken)
    env.step(action)
    res = env.unstep(action)
    kn1, lo1, up1 = view(M, env, n)
    s1 = [M.val(x) for x in env.state]
    for c in range(1 << n):
        M.check(f"restore.known[{c}]", M.iff(kn0[c], kn1[c]))
        M.check(f"restore.lower[{c}]", lo0[c] == lo1[c])
        M.check(f"restore.upper[{c}]", up0[c] == up1[c])
    for j in range(len(expl)):
        M.check(f"restore.state[{j}]", s0[j] == s1[j])
        M.check(f"unstep.returns_state[{j}]", M.val(res[0][j]) == s1[j])
    M.check("restore.reward", r0 == M.val(env.reward))
    M.check("restore.done", M.iff(d0, M.val(env.done)))
    M.check("restore.steps_taken", t0 == M.val(env.steps_taken))
    M.check("unstep.returns_reward", M.val(res[1]) == r0)
    M.check("unstep.info", int(res[4]["chosen_coalition"]) == expl[action] and res[3] is False)
