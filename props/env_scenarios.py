"""Scenarios for the environments, solvers and evaluation (C08(4), C09, C12, C13, C16)."""
from __future__ import annotations

from props.scenarios import (GAPS, NRM, G, assume_class, gap_function, minimal, popcount, scenario)
from spec.sets import by_size


def hidden_game_factory(M, n, computer, cls="sa"):
    """A generator stub (SpecGenerator): each call returns a fresh complete game of the assumed class with
    values g<call>v<c> (v(empty)=0)."""
    game_m = M.mod("game")
    C = M.mod("coalitions").Coalition
    calls = []

    def gen(*_a):
        j = len(calls)
        v = [M.const(0)] + [M.real(f"g{j}v{c}") for c in range(1, 1 << n)]
        if cls:
            assume_class(M, n, v, computer if cls == "auto" else ("sam_apx" if cls == "sam" else "superadditive"))
        g = game_m.IncompleteCooperativeGame(n)
        for c in range(1 << n):
            g.set_value(v[c], C(c))
        calls.append(v)
        return g

    gen.calls = calls
    return gen


def make_env(M, n, computer, gap, budget=None, initial=None, cls="auto"):
    icg = M.mod("icg_gym")
    game_m = M.mod("game")
    bounds = M.mod("bounds")
    co = M.mod("coalitions")
    gen = hidden_game_factory(M, n, computer, cls)
    inc = game_m.IncompleteCooperativeGame(n, bounds.BOUNDS[computer])
    init = [co.Coalition(c) for c in (minimal(n) if initial is None else initial)]
    env = icg.ICG_Gym(inc, gen, init, gap_function(M, gap), done_after_n_actions=budget)
    return env, gen


def put_env_state(M, env, n, v, initial_ids, tag="", chosen=None):
    """Bring env into an arbitrary EnvInv state for the hidden game v: every explorable coalition c is known
    iff k_c (symbolic), known values are v's, bounds are the computer's output, steps_taken = #chosen."""
    k = {}
    g = env.incomplete_game
    for c in range(1 << n):
        if c in initial_ids:
            k[c] = True
        else:
            k[c] = M.bool(f"{tag}k{c}") if chosen is None else (c in chosen)
            M.put_row(g, c, k[c], v[c], M.const(0), M.const(0))
    g.compute_bounds()
    env.steps_taken = M.count([k[c] for c in range(1 << n) if c not in initial_ids])
    return k


def gap_spec(M, n, gap, lo, up):
    w = NRM.widths(lo, up)
    if gap == "exploitability":
        return NRM.binomial_gap(M, n, w)
    if gap == "l1_norm":
        return NRM.l1(M, w)
    if gap == "linf_norm":
        return NRM.linf(M, w)
    return None     # l2: compared through its square


def check_gap_equals(M, name, n, gap, value, lo, up):
    """value == gap_spec(table)."""
    if gap == "l2_norm":
        M.check(name, M.and_(value >= 0, value * value == NRM.sumsq(M, NRM.widths(lo, up))))
    else:
        M.check(name, value == gap_spec(M, n, gap, lo, up))


def view_of(M, g, n):
    class _E:
        incomplete_game = g
    return view(M, _E, n)


def view(M, env, n):
    g = env.incomplete_game
    lo = [M.val(x) for x in g.get_lower_bounds()]
    up = [M.val(x) for x in g.get_upper_bounds()]
    kn = [M.val(x) for x in g.are_values_known()]
    return kn, lo, up


def check_observers(M, env, n, gap, v, k, initial_ids, explorable, budget, tag="", sa_class=True, LU=None):
    """The observer contracts of ICG_Gym in the state described by (v, k)."""
    kn, lo, up = view(M, env, n)
    norm, surplus = G.normalised(M, n, v)
    mask = [M.val(x) for x in env.action_masks()]
    state = [M.val(x) for x in env.state]
    reward = M.val(env.reward)
    M.check(f"{tag}mask.length", len(mask) == len(explorable))
    M.check(f"{tag}state.length", len(state) == len(explorable))
    for j, c in enumerate(explorable):
        M.check(f"{tag}mask[{j}]", M.iff(mask[j], M.not_(k[c])))
        M.check(f"{tag}state[{j}]", state[j] == M.ite(k[c], norm[c], M.const(0)))
    for c in range(1 << n):
        M.check(f"{tag}known[{c}]", M.iff(kn[c], k[c]))
        M.check(f"{tag}known_value[{c}]", M.implies(k[c], M.and_(lo[c] == v[c], up[c] == v[c])))
        if LU is not None:
            M.check(f"{tag}bounds_fresh[{c}]", M.and_(lo[c] == LU[0][c], up[c] == LU[1][c]))
    check_gap_equals(M, f"{tag}reward.is_negated_gap", n, gap, -reward, lo, up)
    if sa_class:
        M.check(f"{tag}reward.nonpositive", reward <= 0)
    nothing_left = M.and_(*[k[c] for c in explorable])
    degenerate = M.and_(*[up[c] - lo[c] == 0 for c in range(1 << n)])
    steps = M.count([k[c] for c in explorable])
    M.check(f"{tag}steps_taken", M.val(env.steps_taken) == steps)
    used_up = (steps >= budget) if budget is not None else False
    M.check(f"{tag}done", M.iff(M.val(env.done), M.or_(used_up, nothing_left, degenerate)))
    return kn, lo, up, state, reward


def sa_LU(M, n, k, v, computer):
    if computer in ("superadditive", "superadditive_cached"):
        L = G.lower_spec(M, n, k, v)
        return L, G.upper_spec(M, n, k, v, L)
    return None


@scenario
def sc_env_construct_reset(M, n, computer, gap, budget=None, initial=None):
    """__init__ / reset: explorable = all minus initially known (id order; empty and grand always initial); reset draws a
    NEW hidden game, forgets everything but the initial knowledge, steps_taken = 0, returns (state, {"game": full_game})."""
    init_ids = sorted(set(minimal(n) if initial is None else initial) | {0, (1 << n) - 1})
    env, gen = make_env(M, n, computer, gap, budget, initial)
    expl = [c.id for c in env.explorable_coalitions]
    M.check("explorable.is_complement_in_id_order", expl == [c for c in range(1 << n) if c not in init_ids])
    M.check("initially_known.set", sorted(c.id for c in env.initially_known_coalitions) == init_ids)
    # bring it into an arbitrary state, then reset
    v_old = gen.calls[-1]
    k = put_env_state(M, env, n, v_old, init_ids)
    ncalls = len(gen.calls)
    g0 = env.incomplete_game
    st, info = env.reset()
    M.check("reset.draws_one_new_game", len(gen.calls) == ncalls + 1)
    M.check("reset.keeps_the_incomplete_game_object", env.incomplete_game is g0)
    v = gen.calls[-1]
    k0 = {c: (c in init_ids) for c in range(1 << n)}
    M.check("reset.info_is_full_game", info.get("game") is env.full_game and set(info) == {"game"})
    fg = [M.val(x) for x in env.full_game.get_values()]
    for c in range(1 << n):
        M.check(f"reset.full_game_is_new[{c}]", fg[c] == v[c])
    check_observers(M, env, n, gap, v, k0, init_ids, expl, budget, tag="reset.",
                    LU=sa_LU(M, n, k0, v, computer) if init_ids == minimal(n) else None)
    st = [M.val(x) for x in st]
    now = [M.val(x) for x in env.state]
    for j in range(len(expl)):
        M.check(f"reset.returns_state[{j}]", st[j] == now[j])


@scenario
def sc_env_observers(M, n, computer, gap, budget=None):
    """Observer contracts from an arbitrary EnvInv state (every chosen set at once)."""
    init_ids = minimal(n)
    env, gen = make_env(M, n, computer, gap, budget)
    v = gen.calls[-1]
    k = put_env_state(M, env, n, v, init_ids)
    expl = [c.id for c in env.explorable_coalitions]
    check_observers(M, env, n, gap, v, k, init_ids, expl, budget, LU=sa_LU(M, n, k, v, computer))


@scenario
def sc_env_step(M, n, computer, gap, action, budget=None):
    """step(a) with mask[a] from an arbitrary EnvInv state: reveals exactly explorable[a] with the hidden value,
    recomputes, increments, returns (state, reward, done, False, {"chosen_coalition": id}); EnvInv re-established."""
    init_ids = minimal(n)
    env, gen = make_env(M, n, computer, gap, budget)
    v = gen.calls[-1]
    k = put_env_state(M, env, n, v, init_ids)
    expl = [c.id for c in env.explorable_coalitions]
    c_a = expl[action]
    M.assume(M.not_(k[c_a]))                       # requires: the action is valid
    g0, full0 = env.incomplete_game, env.full_game
    res = env.step(action)
    M.check("step.returns_5_tuple", len(res) == 5)
    M.check("step.keeps_game_objects", env.incomplete_game is g0 and env.full_game is full0)
    st, rew, done, trunc, info = res
    k2 = dict(k)
    k2[c_a] = True
    kn, lo, up, state, reward = check_observers(M, env, n, gap, v, k2, init_ids, expl, budget, tag="after.",
                                                LU=sa_LU(M, n, k2, v, computer))
    st = [M.val(x) for x in st]
    for j in range(len(expl)):
        M.check(f"step.returns_state[{j}]", st[j] == state[j])
    M.check("step.returns_reward", M.val(rew) == reward)
    M.check("step.returns_done", M.iff(M.val(done), M.val(env.done)))
    M.check("step.truncated_false", trunc is False)
    M.check("step.info", isinstance(info, dict) and set(info) == {"chosen_coalition"} and int(info["chosen_coalition"]) == c_a)


@scenario
def sc_env_step_unstep(M, n, computer, gap, action, budget=None):
    """C08(4)/C13: step(a) then unstep(a) restores observation, reward, done, steps_taken and the whole table."""
    init_ids = minimal(n)
    env, gen = make_env(M, n, computer, gap, budget)
    v = gen.calls[-1]
    k = put_env_state(M, env, n, v, init_ids)
    expl = [c.id for c in env.explorable_coalitions]
    M.assume(M.not_(k[expl[action]]))
    kn0, lo0, up0 = view(M, env, n)
    s0 = [M.val(x) for x in env.state]
    r0, d0, t0 = M.val(env.reward), M.val(env.done), M.val(env.steps_taken)
    g0 = env.incomplete_game            # the object the caller handed to the environment (and may still hold)
    env.step(action)
    res = env.unstep(action)
    M.check("restore.same_game_object", env.incomplete_game is g0)
    kn1, lo1, up1 = view(M, env, n) if env.incomplete_game is g0 else view_of(M, g0, n)
    s1 = [M.val(x) for x in env.state]
    for c in range(1 << n):
        M.check(f"restore.known[{c}]", M.iff(kn0[c], kn1[c]))
        M.check(f"restore.lower[{c}]", lo0[c] == lo1[c])
        M.check(f"restore.upper[{c}]", up0[c] == up1[c])
    for j in range(len(expl)):
        M.check(f"restore.state[{j}]", s0[j] == s1[j])
        M.check(f"unstep.returns_state[{j}]", M.val(res[0][j]) == s1[j])
    M.check("restore.reward", r0 == M.val(env.reward))
    M.check("restore.done", M.iff(d0, M.val(env.done)))
    M.check("restore.steps_taken", t0 == M.val(env.steps_taken))
    M.check("unstep.returns_reward", M.val(res[1]) == r0)
    M.check("unstep.info", int(res[4]["chosen_coalition"]) == expl[action] and res[3] is False)


# ---------------------------------------------------------------------------------------------
# solvers (C13)

def solver_package():
    from pyvc import loader, stubs_misc
    return loader.Package(stubs={"random": stubs_misc.random_stub(), "multiprocessing": stubs_misc.multiprocessing_stub()})


def snapshot_env(M, env, n):
    kn, lo, up = view(M, env, n)
    return kn, lo, up, [M.val(x) for x in env.state], M.val(env.reward), M.val(env.steps_taken), env.incomplete_game


def check_env_unchanged(M, tag, before, env, n):
    kn0, lo0, up0, s0, r0, t0, g0 = before
    kn1, lo1, up1, s1, r1, t1, g1 = snapshot_env(M, env, n)
    # the environment still works on the game object it was given, and THAT object is as it was (a caller holding a
    # reference to it sees no change)
    M.check(f"{tag}.same_game_object", g1 is g0)
    if g1 is not g0:
        kn1, lo1, up1 = view_of(M, g0, n)
    for c in range(1 << n):
        M.check(f"{tag}.known[{c}]", M.iff(kn0[c], kn1[c]))
        M.check(f"{tag}.lower[{c}]", lo0[c] == lo1[c])
        M.check(f"{tag}.upper[{c}]", up0[c] == up1[c])
    for j in range(len(s0)):
        M.check(f"{tag}.state[{j}]", s0[j] == s1[j])
    M.check(f"{tag}.reward", r0 == r1)
    M.check(f"{tag}.steps_taken", t0 == t1)


@scenario
def sc_solver(M, n, solver, chosen, computer="superadditive_cached", gap="exploitability", budget=None):
    """A built-in solver at the environment state `chosen` (explorable ids already revealed), hidden game symbolic:
    returns a currently valid action chosen by its rule (ties to the lowest index) and leaves the environment as found."""
    solvers = M.mod("solvers")
    init_ids = minimal(n)
    env, gen = make_env(M, n, computer, gap, budget)
    v = gen.calls[-1]
    put_env_state(M, env, n, v, init_ids, chosen=set(chosen))
    expl = [c.id for c in env.explorable_coalitions]
    valid = [j for j, c in enumerate(expl) if c not in chosen]
    if not valid:
        return
    before = snapshot_env(M, env, n)
    M.fork_selections()
    s = solvers.SOLVERS[solver](None)
    a = s.next_step(env)
    M.fork_selections(False)
    M.check("action.is_valid", int(a) in valid)
    check_env_unchanged(M, "frame", before, env, n)
    if solver in ("greedy", "greedy_worst"):
        rew = {}
        for j in valid:
            rew[j] = M.val(env.step(j)[1])
            env.unstep(j)
        for j in valid:
            if solver == "greedy":
                M.check(f"greedy.maximal[{j}]", rew[int(a)] >= rew[j])
                if j < int(a):
                    M.check(f"greedy.lowest_index[{j}]", M.same_computation_lt(rew[j], rew[int(a)]))
            else:
                M.check(f"worst.minimal[{j}]", rew[int(a)] <= rew[j])
                if j < int(a):
                    M.check(f"worst.lowest_index[{j}]", M.same_computation_lt(rew[int(a)], rew[j]))
    elif solver == "largest":
        size = {j: popcount(expl[j]) for j in valid}
        M.check("largest.rule", size[int(a)] == max(size.values()) and all(size[j] < size[int(a)] for j in valid if j < int(a)))


def gap_of_knowledge(M, n, known_ids, v, gap):
    """Spec: the gap of the incomplete game in which exactly `known_ids` are known with v's values (SA bounds)."""
    k = {c: (c in known_ids) for c in range(1 << n)}
    L = G.lower_spec(M, n, k, v)
    U = G.upper_spec(M, n, k, v, L)
    return gap_spec(M, n, gap, L, U)


@scenario
def sc_expected_greedy(M, n, max_steps, repetitions, gap="exploitability"):
    """get_greedy_rewards: the sequence never repeats a coalition; row t holds, per sampled game, the gap after exactly
    the first t coalitions of the sequence; every extension minimises the mean gap over all remaining candidates; the
    mean curve is non-increasing (games of the class).  Requires max_steps <= number of explorable coalitions."""
    greedy = M.mod("run.greedy")
    init_ids = minimal(n)
    env, gen = make_env(M, n, "superadditive_cached", gap)
    before = len(gen.calls)
    rows, seq = greedy.get_greedy_rewards(env, max_steps, repetitions, gap_function(M, gap), processes=1)
    games = gen.calls[before:]
    M.check("samples.drawn", len(games) == repetitions)
    seq = [int(c) for c in seq]
    expl = [c.id for c in env.explorable_coalitions]
    M.check("sequence.no_repeats", len(set(seq)) == len(seq) == max_steps and all(c in expl for c in seq))
    M.check("rows.shape", tuple(rows.shape) == (max_steps + 1, repetitions))
    means = []
    for t in range(max_steps + 1):
        known = set(init_ids) | set(seq[:t])
        tot = M.const(0)
        for j, v in enumerate(games):
            spec = gap_of_knowledge(M, n, known, v, gap)
            M.check(f"row[{t},{j}].is_gap_after_prefix", M.val(rows[t, j]) == spec)
            tot = tot + spec
        means.append(tot / M.const(repetitions))
    for t in range(max_steps):
        M.check(f"curve.nonincreasing[{t}]", means[t + 1] <= means[t])
        for cand in expl:
            if cand in seq[:t]:
                continue
            known = set(init_ids) | set(seq[:t]) | {cand}
            alt = M.sum_([gap_of_knowledge(M, n, known, v, gap) for v in games]) / M.const(repetitions)
            M.check(f"extension.minimises_mean[{t},cand={cand}]", means[t + 1] <= alt)


# ---------------------------------------------------------------------------------------------
# exhaustive search (C11)
from itertools import combinations as _comb


@scenario
def sc_act_sequence_gap(M, n, computer, gap, known, seq):
    """_get_act_sequence_exploitability(game, full, seq, known, gap) returns (seq, gap(G)) where G has exactly known + seq
    known with full's values and freshly computed bounds - whatever the incoming state of `game` (it is reset)."""
    gp = M.mod("gameplay")
    C = M.mod("coalitions").Coalition
    from props.scenarios import complete_game, declare_game, make_incomplete
    v = declare_game(M, n)
    assume_class(M, n, v, computer)
    full = complete_game(M, n, v)
    g, k = make_incomplete(M, n, computer, v)          # arbitrary incoming state (symbolic knowledge, stale rows)
    seq_c = [C(c) for c in seq]
    known_c = [C(c) for c in known]
    r_seq, r_gap = gp._get_act_sequence_exploitability(g, full, seq_c, known_c, gap_function(M, gap))
    M.check("returns_sequence", r_seq is seq_c)
    target = set(known) | set(seq)
    if computer in ("superadditive", "superadditive_cached"):
        check_gap_equals(M, "gap_of_exact_knowledge", n, gap, M.val(r_gap), *_LU(M, n, target, v))
    kn = [M.val(x) for x in g.are_values_known()]
    for c in range(1 << n):
        M.check(f"knowledge_is_known_plus_sequence[{c}]", M.iff(kn[c], (c in target) or c == 0))


def _LU(M, n, known_ids, v):
    k = {c: (c in known_ids) for c in range(1 << n)}
    L = G.lower_spec(M, n, k, v)
    return L, G.upper_spec(M, n, k, v, L)


@scenario
def sc_meta_game(M, n, gap, meta):
    """MetaGame.get_value(meta-coalition) is the gap of the incomplete game in which exactly the minimal information plus
    the selected coalitions is known; get_values agrees; the caller's incomplete game is not touched."""
    mg = M.mod("meta_game")
    C = M.mod("coalitions").Coalition
    game_m, bounds = M.mod("game"), M.mod("bounds")
    from props.scenarios import complete_game, declare_game, make_incomplete
    v = declare_game(M, n)
    assume_class(M, n, v, "superadditive")
    full = complete_game(M, n, v)
    inc, k = make_incomplete(M, n, "superadditive_cached", v)
    before = [inc._values[c, j] for c in range(1 << n) for j in range(3)]
    m = mg.MetaGame(full, inc, gap_function(M, gap))
    non_min = [c for c in range(1 << n) if c not in minimal(n)]
    M.check("players_are_non_minimal", [p.id for p in m.players] == non_min and m.number_of_players == len(non_min))
    val = M.val(m.get_value(C(meta)))
    inner = {non_min[i] for i in range(len(non_min)) if meta >> i & 1}
    check_gap_equals(M, "value_is_gap_of_knowledge", n, gap, val, *_LU(M, n, set(minimal(n)) | inner, v))
    vals = m.get_values([C(meta), C(0)])
    M.check("get_values_agrees", M.val(vals[0]) == val)
    check_gap_equals(M, "empty_meta_coalition", n, gap, M.val(vals[1]), *_LU(M, n, set(minimal(n)), v))
    after = [inc._values[c, j] for c in range(1 << n) for j in range(3)]
    M.check("callers_game_untouched", M.and_(*[a == b for a, b in zip(before, after)]))


@scenario
def sc_meta_game_pair(M, n, gap_a, gap_b, metas):
    """Two meta-games alive in one process, over two DIFFERENT (symbolic) full games and possibly different gap functions,
    queried alternately about the same meta-coalitions: each answer is the gap of ITS OWN game at that knowledge (the
    statement quantifies over all games; nothing may leak from one meta-game object into another)."""
    mg = M.mod("meta_game")
    C = M.mod("coalitions").Coalition
    from props.scenarios import complete_game, declare_game, make_incomplete
    va, vb = declare_game(M, n, prefix="av"), declare_game(M, n, prefix="bv")
    assume_class(M, n, va, "superadditive")
    assume_class(M, n, vb, "superadditive")
    ma = mg.MetaGame(complete_game(M, n, va), make_incomplete(M, n, "superadditive_cached", va, tag="a")[0], gap_function(M, gap_a))
    mb = mg.MetaGame(complete_game(M, n, vb), make_incomplete(M, n, "superadditive_cached", vb, tag="b")[0], gap_function(M, gap_b))
    non_min = [c for c in range(1 << n) if c not in minimal(n)]
    for r, meta in enumerate(list(metas) + list(metas)):       # second round: every answer once more, after the other object answered
        inner = {non_min[i] for i in range(len(non_min)) if meta >> i & 1}
        for tag, m, v, gap in (("a", ma, va, gap_a), ("b", mb, vb, gap_b)):
            val = M.val(m.get_value(C(meta)))
            check_gap_equals(M, f"{tag}.round{r}.meta{meta}.value_is_gap_of_own_game", n, gap, val, *_LU(M, n, set(minimal(n)) | inner, v))


@scenario
def sc_search(M, n, max_size, gap="exploitability", start=()):
    """get_exploitabilities_of_action_sequences (assumed starmap contract): one entry per subset of the unknown
    coalitions of size <= max_size, each exactly once, by increasing size, carrying the gap of exactly that knowledge."""
    gp = M.mod("gameplay")
    C = M.mod("coalitions").Coalition
    game_m, bounds = M.mod("game"), M.mod("bounds")
    from props.scenarios import complete_game, declare_game
    v = declare_game(M, n)
    assume_class(M, n, v, "superadditive")
    full = complete_game(M, n, v)
    g = game_m.IncompleteCooperativeGame(n, bounds.BOUNDS["superadditive_cached"])
    known = sorted(set(minimal(n)) | set(start))
    # the incomplete game handed in is a WORK SPACE: only its set of known coalitions is the starting knowledge.  The values
    # it happens to hold there are whatever an earlier search left (another game's values): every gap must still be the
    # gap of `full` at that knowledge
    g.set_known_values([M.const(0) if c == 0 else M.real(f"stale{c}") for c in known], [C(c) for c in known])
    res = list(gp.get_exploitabilities_of_action_sequences(g, full, gap_function(M, gap), max_size=max_size, processes=3))
    unknown = [c for c in range(1 << n) if c not in known]
    lim = len(unknown) if max_size is None else max_size
    expected = [list(cmb) for size in range(lim + 1) for cmb in _comb(unknown, size)]
    got = [[c.id for c in seq] for seq, _ in res]
    M.check("enumeration.each_subset_once_by_size", got == expected)
    for (seq, val), ids in zip(res, expected):
        check_gap_equals(M, f"gap[{','.join(map(str, ids))}]", n, gap, M.val(val), *_LU(M, n, set(known) | set(ids), v))


@scenario
def sc_best_states(M, n, max_steps, repetitions, gap="exploitability"):
    """get_best_exploitability: for each size s <= max_steps, row s is the gap column (over the sampled games) of a reveal
    set of size s with minimal mean among ALL sets of that size, best_actions[s] is that set; hence no evaluated
    strategy is better at any step, and the mean curve is non-increasing (class)."""
    bs = M.mod("run.best_states")
    init_ids = minimal(n)
    env, gen = make_env(M, n, "superadditive_cached", gap)
    before = len(gen.calls)
    rows, acts = bs.get_best_exploitability(env, max_steps, repetitions, gap_function(M, gap), processes=2)
    games = gen.calls[before:]
    M.check("samples.drawn", len(games) == repetitions)
    expl = [c.id for c in env.explorable_coalitions]
    M.check("shape", tuple(rows.shape) == (max_steps + 1, repetitions) and len(acts) == max_steps + 1)
    means = []
    for s in range(max_steps + 1):
        ids = [int(c) for c in acts[s]]
        M.check(f"set[{s}].is_a_reveal_set_of_size_s", len(ids) == s == len(set(ids)) and all(c in expl for c in ids))
        col = []
        for j, v in enumerate(games):
            spec = gap_of_knowledge(M, n, set(init_ids) | set(ids), v, gap)
            M.check(f"row[{s},{j}].is_gap_of_reported_set", M.val(rows[s, j]) == spec)
            col.append(spec)
        mean = M.sum_(col) / M.const(repetitions)
        means.append(mean)
        for cmb in _comb(expl, s):
            alt = M.sum_([gap_of_knowledge(M, n, set(init_ids) | set(cmb), v, gap) for v in games]) / M.const(repetitions)
            M.check(f"optimal[{s}].vs[{','.join(map(str, cmb))}]", mean <= alt)
    for s in range(max_steps):
        M.check(f"curve.nonincreasing[{s}]", means[s + 1] <= means[s])


# ---------------------------------------------------------------------------------------------
# size-aggregated environment (C16)

@scenario
def sc_linear_env(M, n, size, computer="superadditive_cached", gap="exploitability", budget=None, cls="auto"):
    """ICG_Gym_Linear over the real ICG_Gym in an arbitrary invariant state: mask[k] <=> some explorable coalition of size k
    is unknown; observation = per-size sum of the inner observation, length n; step(size) for an allowed size reveals
    exactly one previously unknown coalition of that size (every tie-break explored), reports it and returns the inner
    reward / done."""
    lin_m = M.mod("icg_gym_linear")
    init_ids = minimal(n)
    env, gen = make_env(M, n, computer, gap, budget, cls=cls)     # cls=None: hidden games of ANY class
    v = gen.calls[-1]
    k = put_env_state(M, env, n, v, init_ids)
    expl = [c.id for c in env.explorable_coalitions]
    lin = lin_m.ICG_Gym_Linear(env)
    norm, _ = G.normalised(M, n, v)
    mask = [M.val(x) for x in lin.action_masks()]
    obs = [M.val(x) for x in lin.state]
    M.check("mask.length", len(mask) == n)
    M.check("observation.length", len(obs) == n)
    for s in range(n):
        of_size = [c for c in expl if popcount(c) == s]
        M.check(f"mask[{s}]", M.iff(mask[s], M.or_(*[M.not_(k[c]) for c in of_size])))
        M.check(f"observation[{s}]", obs[s] == M.sum_([M.ite(k[c], norm[c], M.const(0)) for c in of_size]))
    M.check("reward_is_inner", M.val(lin.reward) == M.val(env.reward))
    M.check("done_is_inner", M.iff(M.val(lin.done), M.val(env.done)))
    # step with an allowed size
    M.assume(mask[size])
    res = lin.step(size)
    M.check("step.returns_5_tuple", len(res) == 5)
    revealed = int(res[4]["chosen_coalition"])
    M.check("step.reveals_coalition_of_that_size", revealed in expl and popcount(revealed) == size)
    M.check("step.was_unknown", M.not_(k[revealed]))
    k2 = dict(k)
    k2[revealed] = True
    kn, lo, up = view(M, env, n)
    for c in range(1 << n):
        M.check(f"step.knowledge[{c}]", M.iff(kn[c], k2[c]))
        M.check(f"step.value[{c}]", M.implies(k2[c], M.and_(lo[c] == v[c], up[c] == v[c])))
    obs2 = [M.val(x) for x in res[0]]
    M.check("step.observation.length", len(obs2) == n)
    for s in range(n):
        of_size = [c for c in expl if popcount(c) == s]
        M.check(f"step.observation[{s}]", obs2[s] == M.sum_([M.ite(k2[c], norm[c], M.const(0)) for c in of_size]))
    M.check("step.reward_is_inner", M.val(res[1]) == M.val(env.reward))
    M.check("step.done_is_inner", M.iff(M.val(res[2]), M.val(env.done)))
    M.check("step.truncated_false", res[3] is False)


@scenario
def sc_linear_two_steps(M, n, sizes, computer="superadditive_cached", gap="exploitability"):
    """reset, then consecutive step(size) calls WITHOUT asking for the mask in between (hidden game symbolic, every
    tie-break explored): each step reveals exactly one coalition of its size that was unknown before it."""
    lin_m = M.mod("icg_gym_linear")
    env, gen = make_env(M, n, computer, gap)
    lin = lin_m.ICG_Gym_Linear(env)
    lin.reset()
    v = gen.calls[-1]
    expl = [c.id for c in env.explorable_coalitions]
    known = set(minimal(n))
    for t, size in enumerate(sizes):
        res = lin.step(size)
        revealed = int(res[4]["chosen_coalition"])
        M.check(f"step{t}.reveals_coalition_of_that_size", revealed in expl and popcount(revealed) == size)
        M.check(f"step{t}.was_unknown", revealed not in known)
        known.add(revealed)
        kn, lo, up = view(M, env, n)
        for c in range(1 << n):
            M.check(f"step{t}.knowledge[{c}]", M.iff(kn[c], c in known))


@scenario
def sc_linear_reset(M, n, computer="superadditive_cached", gap="exploitability", asked_before=False):
    """asked_before: the caller asked the wrapper for its mask in the (arbitrary) state before reset - whatever the
    wrapper keeps from that query must not survive the reset."""
    lin_m = M.mod("icg_gym_linear")
    init_ids = minimal(n)
    env, gen = make_env(M, n, computer, gap)
    lin = lin_m.ICG_Gym_Linear(env)
    k = put_env_state(M, env, n, gen.calls[-1], init_ids)
    ncalls = len(gen.calls)
    if asked_before:
        before = [M.val(x) for x in lin.action_masks()]
        for sz in range(n):
            M.check(f"before_reset.mask[{sz}]", M.iff(before[sz], M.or_(*[M.not_(k[c]) for c in range(1 << n)
                                                                          if popcount(c) == sz and k[c] is not True])))
    st, info = lin.reset()
    M.check("reset.draws_new_game", len(gen.calls) == ncalls + 1 and info.get("game") is env.full_game)
    st = [M.val(x) for x in st]
    M.check("reset.observation.length", len(st) == n)
    for s in range(n):
        M.check(f"reset.observation[{s}]", st[s] == 0)
    mask = [M.val(x) for x in lin.action_masks()]
    for s in range(n):
        M.check(f"reset.mask[{s}]", M.iff(mask[s], 2 <= s <= n - 1))


# ---------------------------------------------------------------------------------------------
# evaluate() (C12)

def any_valid_policy(M):
    """A solver stub: SOME currently valid action (every choice explored) - the contract C13 gives for every solver."""
    def next_step(env):
        m = env.action_masks()
        valid = [j for j in range(len(m)) if M.is_true(m[j])]
        if M.symbolic:
            from pyvc import rng
            next_step.trace.append(1)
            return valid[rng.choose(len(valid), f"policy{len(next_step.trace)}")]
        return valid[int(M.int(f"policy{len(next_step.trace)}", lo=0)) % len(valid)]
    next_step.trace = []
    return next_step


@scenario
def sc_eval_one(M, n, limit, computer="superadditive_cached", gap="exploitability", budget=None):
    """eval_one: row 0 = gap at the minimal information; row t+1 = gap after the t-th chosen coalition; the action row holds
    the ids actually revealed (distinct, explorable); after `done` the remaining cells stay 0."""
    ev = M.mod("evaluation")
    init_ids = minimal(n)
    env, gen = make_env(M, n, computer, gap, budget)
    policy = any_valid_policy(M)
    seen = []

    def after_reset(e):
        seen.append(gen.calls[-1])

    expl_row, act_row = ev.eval_one(policy, env, limit, gap_function(M, gap), after_reset)
    M.check("after_reset.called_once", len(seen) == 1)
    v = seen[0]
    expl = [c.id for c in env.explorable_coalitions]
    M.check("shapes", tuple(expl_row.shape) == (limit + 1,) and tuple(act_row.shape) == (limit,))
    check_trajectory(M, n, gap, budget, limit, expl_row, act_row, v, expl, "")


def check_trajectory(M, n, gap, budget, limit, expl_row, act_row, v, expl, tag):
    init_ids = minimal(n)
    check_gap_equals(M, f"{tag}row0.is_gap_at_minimal_information", n, gap, M.val(expl_row[0]), *_LU(M, n, set(init_ids), v))
    known = set(init_ids)
    ids = []
    stopped = False
    for t in range(limit):
        a = M.val(act_row[t])
        if stopped:
            M.check(f"{tag}padding[{t}]", M.and_(a == 0, M.val(expl_row[t + 1]) == 0))
            continue
        cid = int(act_row[t]) if not M.symbolic else int(act_row[t].c)
        ids.append(cid)
        known.add(cid)
        lo, up = _LU(M, n, set(known), v)
        check_gap_equals(M, f"{tag}row[{t + 1}].is_gap_after_chosen", n, gap, M.val(expl_row[t + 1]), lo, up)
        if (budget is not None and len(ids) >= budget) or len(ids) == len(expl):
            stopped = True
        elif M.is_true_or_none(M.and_(*[up[c] - lo[c] == 0 for c in range(1 << n)])):
            stopped = True
    M.check(f"{tag}actions.distinct_and_explorable", len(set(ids)) == len(ids) and all(c in expl for c in ids))


@scenario
def sc_evaluate(M, n, limit, repetitions, computer="superadditive_cached", gap="exploitability"):
    """evaluate(..., processes=1): column j of both matrices is the trajectory of the j-th environment produced by the
    environment generator (each with its own hidden game); shapes (limit+1, reps) and (limit, reps)."""
    ev = M.mod("evaluation")
    envs = []

    def env_generator():
        env, gen = make_env(M, n, computer, gap)
        envs.append((env, gen))
        return env

    policy = any_valid_policy(M)
    games = {}

    def after_reset(e):
        for env, gen in envs:
            if env is e:
                games[id(e)] = gen.calls[-1]

    E_, A_ = ev.evaluate(policy, env_generator, repetitions, limit, gap_function(M, gap), 1, after_reset)
    M.check("environments.one_per_repetition", len(envs) == repetitions and len(games) == repetitions)
    M.check("shapes", tuple(E_.shape) == (limit + 1, repetitions) and tuple(A_.shape) == (limit, repetitions))
    for j, (env, gen) in enumerate(envs):
        expl = [c.id for c in env.explorable_coalitions]
        check_trajectory(M, n, gap, None, limit, E_[:, j], A_[:, j], games[id(env)], expl, f"col{j}.")


@scenario
def sc_env_history(M, n, computer, gap, ops, budget=None):
    """A whole history of step / unstep calls from reset (hidden game symbolic): after EVERY call the environment's view is
    the one determined by the current knowledge alone (known set, values, freshly computed bounds, mask, observation,
    reward, done, steps_taken) - whatever happened before.  ops: list of ['s', j] (step) / ['u', j] (unstep)."""
    init_ids = minimal(n)
    env, gen = make_env(M, n, computer, gap, budget)
    v = gen.calls[-1]
    expl = [c.id for c in env.explorable_coalitions]
    chosen = []
    for t, (kind, j) in enumerate(ops):
        if kind == "s":
            env.step(j)
            chosen.append(expl[j])
        else:
            env.unstep(j)
            chosen.remove(expl[j])
        k = {c: (c in init_ids or c in chosen) for c in range(1 << n)}
        check_observers(M, env, n, gap, v, k, init_ids, expl, budget, tag=f"after[{t}:{kind}{j}].", LU=sa_LU(M, n, k, v, computer))


def all_histories(m, length):
    """Every valid sequence of step/unstep operations of the given length over m explorable coalitions."""
    out = []

    def rec(seq, chosen):
        if len(seq) == length:
            out.append(list(seq))
            return
        for j in range(m):
            if j not in chosen:
                rec(seq + [["s", j]], chosen | {j})
            else:
                rec(seq + [["u", j]], chosen - {j})
    rec([], frozenset())
    return out
