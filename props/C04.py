"""C04  Approximate superadditive-monotone bounds are sound, ordered, self-consistent."""
from __future__ import annotations

from props import scenarios as S
from rt import gen

LEVEL = "proof"
REGISTERED = (1, 10, 100, 1000)


def bounded_inputs(run, n, count, reps=None):
    for i in range(count):
        v = gen.superadditive_game(run.rng, n, kind=("int", "dyadic", "float")[i % 3], monotone=True)
        K = gen.knowledge(run.rng, n)
        d = gen.game_inputs(v, K, n, rng=run.rng)
        if reps is not None:
            d["reps"] = reps
        yield d


def _two_tag_inputs(run, n, count):
    for d in bounded_inputs(run, n, count):
        e = dict(d)
        for k, v in d.items():
            if k.startswith("slo") or k.startswith("sup"):
                e["a" + k] = v
                e["b" + k] = float(run.rng.randint(-9, 9))
        yield e


def family_inputs(run, n, count):
    """Hidden games from the repository's own SAM families (coverage / budget / XOS / XS / OXS)."""
    import numpy as np
    from pyvc.mode import native_pkg
    P = native_pkg()
    gens = P.mod("generators").GENERATORS
    for i in range(count):
        key = ("covg_fn_generator", "k_budget_generator", "xos", "xs", "oxs", "xos3", "xs2")[i % 7]
        rng = np.random.default_rng(run.rng.randrange(1 << 30))
        game = gens[key](n, rng)
        v = [float(x) for x in game.get_values()]
        yield gen.game_inputs(v, gen.knowledge(run.rng, n), n, rng=run.rng)


def structure_check(run, upto):
    """Exhaustive over player counts: the memoised helper every cached computer reads - ids, the relation matrix
    (1 proper non-empty subset, 2 proper superset, 0 self, -2 empty, -1 otherwise) and the processing order ("smaller
    coalitions first": sizes non-decreasing along the order, every coalition once) - against bit arithmetic."""
    import numpy as np
    from pyvc.mode import native_pkg
    b = native_pkg().mod("bounds")
    f = getattr(b, "_get_sub_super_coalition_structure", None)
    if f is None:
        run.exhaustive.append({"label": "relation structure helper", "rows": [], "exhaustive": False,
                               "space": "helper not present any more: covered by the large-n soundness runs only"})
        return
    bad = None
    for n in range(1, upto + 1):
        ids, order, rel = f(n)
        N = 1 << n
        a = np.arange(N)
        pop = np.array([bin(c).count("1") for c in range(N)])
        want = np.full((N, N), -1.0)
        sub = (a[None, :] & a[:, None]) == a[None, :]          # column is a subset of row
        sup = (a[None, :] & a[:, None]) == a[:, None]          # column is a superset of row
        want[sub] = 1
        want[sup] = 2
        want[a, a] = 0
        want[:, 0] = -2
        ok = (np.array_equal(np.asarray(ids), a) and sorted(np.asarray(order).tolist()) == list(range(N))
              and bool(np.all(np.diff(pop[np.asarray(order)]) >= 0)) and np.array_equal(np.asarray(rel, dtype=float), want))
        run.native_evals += 1
        run.native_distinct.add(("structure", n))
        if not ok and bad is None:
            o = np.asarray(order)
            bad = {"n": n, "order_sorted_by_size": bool(np.all(np.diff(pop[o]) >= 0)) if len(o) == N else False,
                   "relation_matrix_ok": bool(np.array_equal(np.asarray(rel, dtype=float), want))}
    run.exhaustive.append({"label": "_get_sub_super_coalition_structure against bit arithmetic", "rows": [{"n_upto": upto, "failure": bad}],
                           "exhaustive": True, "space": f"n = 1..{upto}"})
    if bad:
        run._report_violation(f"structure[n={bad['n']}]/order_and_relations", S.sc_sam, {"n": bad["n"], "reps": 0}, bad, True,
                              detail={"layer": "exhaustive over player counts", "witness": bad})


def large_n_soundness(run, n, count):
    """Bounded: the real SAM computer (and the registered partials) at a player count above one byte of players."""
    import numpy as np
    from functools import partial
    from pyvc.mode import native_pkg
    P = native_pkg()
    b, game_m, co = P.mod("bounds"), P.mod("game"), P.mod("coalitions")
    fails = 0
    for i in range(count):
        v = gen.superadditive_game(run.rng, n, kind=("int", "dyadic")[i % 2], monotone=True)
        K = sorted(gen.knowledge(run.rng, n, p=(0.0, 0.05, 0.3)[i % 3]))
        reps = (0, 1, 3)[i % 3]
        g = game_m.IncompleteCooperativeGame(n, partial(getattr(b, S.SAM_FN), repetitions=reps))
        g.set_known_values([v[c] for c in K], [co.Coalition(c) for c in K])
        g.compute_bounds()
        lo, up = np.asarray(g.get_lower_bounds()), np.asarray(g.get_upper_bounds())
        va = np.array(v)
        ok = bool(np.all(lo <= va + 1e-9) and np.all(va <= up + 1e-9))
        for j in range(n):
            m = (np.arange(1 << n) >> j) & 1 == 1
            ok = ok and bool(np.all(lo[np.arange(1 << n)[m] ^ (1 << j)] >= lo[m] - 1e-9))
        run.native_evals += 1
        run.native_distinct.add(("large", n, i))
        if not ok:
            fails += 1
            c = int(np.argmax((lo > va + 1e-9) | (va > up + 1e-9)))
            run._report_violation(f"large[n={n},r={reps}]/contains", S.sc_sam, {"n": n, "reps": reps},
                                  {"coalition": c, "lower": float(lo[c]), "value": float(va[c]), "upper": float(up[c]), "known": len(K)}, True,
                                  detail={"layer": "bounded"})
            break
    run.bounded.append({"label": f"SAM soundness / monotone lower bounds at n={n}", "evaluations": count, "failures": fails,
                        "bound": f"{count} seeded coverage-type games x knowledge (minimal, sparse, 30%) x repetitions 0/1/3"})


def main(run):
    pkg = run.package()
    run.under_contract(pkg, "bounds", [S.SAM_FN, "_get_sub_super_coalition_structure"])
    run.inlined.update(["game.IncompleteCooperativeGame (real class; C17)", "coalition_ids.* (concrete; C18)"])
    cut = S.sam_cut_package()
    ns = (3, 4)
    for n in ns:
        for r in (0, 1, 2):
            run.prove(f"unrolled[n={n},r={r}]", S.sc_sam, {"n": n, "reps": r, "canary": (n == 3 and r == 1)},
                      fallback=(lambda n=n, r=r: run.bounded_run(f"fallback.unrolled[n={n},r={r}]", S.sc_sam, {"n": n, "reps": r},
                                                                 bounded_inputs(run, n, 100), bound="100 seeded SAM games x K")))
        for r in (0, 1):
            run.prove(f"more_reps[n={n},r={r}->{r + 1}]", S.sc_sam_more_reps, {"n": n, "reps": r})
        for mode in ("iter", "exit"):
            run.prove(f"all_counts.{mode}[n={n}]", S.sc_sam_cut, {"n": n, "mode": mode}, pkg=cut,
                      fallback=(lambda n=n: all(run.bounded_run(f"fallback.cut[n={n},r={r}]", S.sc_sam_cut, {"n": n},
                                                                bounded_inputs(run, n, 30, reps=r), bound="30 seeded SAM games x K")
                                                for r in (0, 1, 2, 3, 10, 100))))
        run.prove(f"final_pass_antitone[n={n}]", S.sc_sam_final_antitone, {"n": n}, pkg=cut,
                  fallback=(lambda n=n: all(run.bounded_run(f"fallback.more_reps[n={n},r={r}]", S.sc_sam_more_reps, {"n": n, "reps": r},
                                                            _two_tag_inputs(run, n, 40), bound="40 seeded SAM games x K, r vs r+1")
                                            for r in (0, 1, 2, 5))))
    if run.tier == "thorough":
        n = 5
        fb5 = (lambda: all(run.bounded_run(f"fallback.sam[n=5,r={r}]", S.sc_sam_cut, {"n": 5}, bounded_inputs(run, 5, 40, reps=r),
                                           bound="40 seeded SAM games x K") for r in (0, 1, 2, 3, 10, 100)))
        run.prove(f"unrolled[n={n},r=0]", S.sc_sam, {"n": n, "reps": 0}, fallback=fb5)
        for mode in ("iter", "exit"):
            run.prove(f"all_counts.{mode}[n={n}]", S.sc_sam_cut, {"n": n, "mode": mode}, pkg=cut, fallback=fb5)
    for key in ("sam_apx_1", "sam_apx_10", "sam_apx_100", "sam_apx_1000"):
        run.prove(f"registry[{key}]", S.sc_sam_registry, {"n": 3, "key": key})
    run.rewrite_hits = dict(cut.hits)
    run.discharge()
    # bounded: real package, repetition counts 0..10 and the registered ones, random SAM games and the repo's families
    for n in (3, 4, 5, 6):
        reps = list(range(0, 11)) + [100, 1000] if n <= 4 else [0, 1, 10, 100] if n == 5 else [1, 10]
        if run.tier == "quick":
            reps = [r for r in reps if r in (0, 1, 2, 3, 10, 100, 1000)] if n <= 4 else reps[:3]
        for r in reps:
            cnt = 4 if run.tier == "quick" else 20
            run.bounded_run(f"float.sam[n={n},r={r}]", S.sc_sam, {"n": n, "reps": r},
                            list(bounded_inputs(run, n, cnt)) + list(family_inputs(run, n, cnt if n <= 5 else 2)), tol=1e-9,
                            bound=f"{cnt} seeded coverage-type SAM games + {cnt} games from covg/k_budget/xos/xs/oxs, random K, stale rows")
    structure_check(run, 10 if run.tier == "quick" else 11)
    large_n_soundness(run, 9, 3 if run.tier == "quick" else 9)
    if run.tier != "quick":
        large_n_soundness(run, 10, 3)
    from rt import instances
    from rt import gen as _gen
    for n, v, K, R in instances.repetition_sensitive(run.rng, 2 if run.tier == "quick" else 8):
        for r in (0, 1, 2, 10):
            run.bounded_run(f"sensitive.sam[n={n},r={r}]", S.sc_sam, {"n": n, "reps": r}, [_gen.game_inputs(v, set(K), n, rng=run.rng)], tol=1e-9,
                            bound="hand-picked instances on which repetitions change bounds, and relabellings")
    return run.finish(
        explanation="SAM approximation proved sound, never looser than the SA bounds (L, U), lower bounds monotone, upper "
                    "bounds consistent with known sub-/super-coalitions: unrolled for r=0,1,2 and - with the outer loop cut by "
                    "an inductive invariant - for EVERY repetition count (symbolic integer), all knowledge sets, all SAM games, "
                    "n=3,4 (5 in thorough). 'Never loosens with the count': body inflationary under the invariant + final pass "
                    "antitone in the lower table (+ direct r vs r+1 comparison). Registry partials pinned.",
        extra={"loop_contracts": {"sam.outer": "Inv(i) := known rows unchanged and (i>=1 => L<=lo<=v* and lo non-increasing along inclusion); "
                                               "modifies: lower column of unknown rows; frame and invariant are obligations"}})
