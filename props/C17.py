"""C17  An incomplete game object is a faithful map coalition -> (known?, lower, upper)."""
from __future__ import annotations

import itertools
import math

from props import game_scenarios as GS

LEVEL = "proof"
SCALAR = ("set_value", "unset_value", "reveal_value", "unreveal_value", "set_upper_bound", "set_lower_bound")
BULK = ("set_values", "set_known_values", "set_upper_bounds", "set_lower_bounds")


def history_check(run, n, length):
    """Bounded: random operation histories on the real class against a dictionary model (includes coalition lists
    with repetitions, empty lists, copies and negations)."""
    import numpy as np
    from pyvc.mode import native_pkg
    P = native_pkg()
    game_m, co = P.mod("game"), P.mod("coalitions")
    rng = run.rng
    N = 1 << n
    g = game_m.IncompleteCooperativeGame(n)
    model = {c: [c == 0, 0.0, 0.0] for c in range(N)}
    hist = []

    def val():
        return float(rng.randint(-20, 20)) / rng.choice([1, 2, 4])

    for _ in range(length):
        op = rng.choice(SCALAR + BULK + ("copy", "neg", "getters"))
        c = rng.randrange(N)
        C = co.Coalition(c)
        x = val()
        hist.append((op, c))
        try:
            if op == "set_value":
                g.set_value(x, C); model[c] = [True, x, x]
            elif op == "unset_value":
                g.unset_value(C); model[c] = [False, 0.0, 0.0]
            elif op == "reveal_value":
                if model[c][0]:
                    try:
                        g.reveal_value(x, C); return hist + ["reveal of a known coalition did not raise"]
                    except AssertionError:
                        pass
                else:
                    g.reveal_value(x, C); model[c] = [True, x, x]
            elif op == "unreveal_value":
                if not model[c][0]:
                    try:
                        g.unreveal_value(C); return hist + ["unreveal of an unknown coalition did not raise"]
                    except AssertionError:
                        pass
                else:
                    g.unreveal_value(C); model[c] = [False, 0.0, 0.0]
            elif op == "set_upper_bound":
                if not model[c][0]:
                    g.set_upper_bound(x, C); model[c][2] = x
            elif op == "set_lower_bound":
                if not model[c][0]:
                    g.set_lower_bound(x, C); model[c][1] = x
            elif op in BULK:
                k = rng.randint(0, N)
                ids = rng.sample(range(N), k) if rng.random() < 0.8 else None
                if ids is not None and ids and rng.random() < 0.3:
                    ids = ids + [ids[0]]            # a repeated coalition, with an equal value below
                xs = [val() for _ in (ids if ids is not None else range(N))]
                # argument KINDS: the bulk operations take any array-like - integer arrays, lists of Python ints, float32 and
                # boolean arrays included; whatever comes in, the table stays a float64 map (later fractional values survive)
                kind = rng.choice(["float64", "float64", "int64", "list_of_ints", "float32", "list_of_floats", "bool"])
                if kind in ("int64", "list_of_ints"):
                    xs = [float(round(x)) for x in xs]
                elif kind == "bool":
                    xs = [float(rng.random() < 0.5) for _ in xs]
                if ids is not None and len(ids) >= 2 and ids[-1] == ids[0]:
                    xs[-1] = xs[0]

                def as_arg(seq):
                    if kind == "int64":
                        return np.array([int(y) for y in seq], dtype=np.int64)
                    if kind == "list_of_ints":
                        return [int(y) for y in seq]
                    if kind == "float32":
                        return np.array(seq, dtype=np.float32)
                    if kind == "list_of_floats":
                        return list(seq)
                    if kind == "bool":
                        return np.array([bool(y) for y in seq], dtype=bool)
                    return np.array(seq, dtype=float)
                arg = None if ids is None else [co.Coalition(i) for i in ids]
                tgt = list(range(N)) if ids is None else ids
                if op == "set_values":
                    g.set_values(as_arg(xs), arg)
                    for i, y in zip(tgt, xs):
                        model[i] = [True, y, y]
                elif op == "set_known_values":
                    g.set_known_values(xs, arg)
                    model = {i: [i == 0, 0.0, 0.0] for i in range(N)}
                    for i, y in zip(tgt, xs):
                        model[i] = [True, y, y]
                elif op == "set_upper_bounds":
                    g.set_upper_bounds(as_arg(xs), arg)
                    for i, y in zip(tgt, xs):
                        if not model[i][0]:
                            model[i][2] = y
                else:
                    g.set_lower_bounds(as_arg(xs), arg)
                    for i, y in zip(tgt, xs):
                        if not model[i][0]:
                            model[i][1] = y
            elif op == "copy":
                cp = g.copy()
                cp.set_value(123.0, C)
                g2 = g.copy()
                g = g2 if rng.random() < 0.5 else g
            elif op == "neg":
                if not (-(-g) == g):
                    return hist + ["negation is not an involution"]
                ng = -g
                for i in range(N):
                    if bool(ng.is_value_known(co.Coalition(i))) != model[i][0] or ng.get_lower_bound(co.Coalition(i)) != -model[i][2] \
                            or ng.get_upper_bound(co.Coalition(i)) != -model[i][1]:
                        return hist + [f"negation wrong at {i}"]
            elif op == "getters":
                kv = g.get_known_values()
                for i in range(N):
                    if model[i][0]:
                        if g.get_value(co.Coalition(i)) != model[i][1] or kv[i] != model[i][1] or g.get_known_value(co.Coalition(i)) != model[i][1]:
                            return hist + [f"getter wrong at known {i}"]
                    else:
                        if not math.isnan(kv[i]) or g.get_known_value(co.Coalition(i)) is not None:
                            return hist + [f"unknown value leaked at {i}"]
                        try:
                            g.get_value(co.Coalition(i)); return hist + [f"get_value of unknown {i} did not raise"]
                        except ValueError:
                            pass
        except Exception as e:   # an operation of the public API raised unexpectedly
            return hist + [f"unexpected {type(e).__name__}: {e}"]
        for i in range(N):
            Ci = co.Coalition(i)
            if bool(g.is_value_known(Ci)) != model[i][0] or g.get_lower_bound(Ci) != model[i][1] or g.get_upper_bound(Ci) != model[i][2]:
                return hist + [f"view differs at {i}: {g._values[i].tolist()} vs {model[i]}"]
    return None


def main(run):
    pkg = run.package()
    run.under_contract(pkg, "game", ["IncompleteCooperativeGame." + m for m in (
        "__init__", "__neg__", "_filter_out_coalitions", "get_value", "get_values", "set_value", "unset_value", "set_values",
        "_init_values", "get_upper_bound", "get_upper_bounds", "get_lower_bound", "get_lower_bounds", "get_interval",
        "get_intervals", "is_value_known", "are_values_known", "get_known_value", "get_known_values", "set_known_values",
        "reveal_value", "unreveal_value", "_get_coalition_map", "set_upper_bounds", "set_upper_bound", "set_lower_bounds",
        "set_lower_bound", "__eq__", "full", "copy", "__add__")])
    quick = run.tier == "quick"
    ns = (1, 2, 3, 4) if quick else (1, 2, 3, 4, 5)
    for n in ns:
        N = 1 << n
        run.prove(f"constructor[n={n}]", GS.sc_game_constructor, {"n": n})
        cs = list(range(N)) if n <= 3 else run.rng.sample(range(N), 4 if quick else 8)
        for c in cs:
            for op in SCALAR:
                run.prove(f"{op}[n={n},c={c}]", GS.sc_game_scalar_op, {"n": n, "op": op, "c": c})
            run.prove(f"getters[n={n},c={c}]", GS.sc_game_getters, {"n": n, "c": c})
        if n <= 2:
            lists = [list(p) for k in range(N + 1) for p in itertools.permutations(range(N), k)]
            if quick and n == 2:
                lists = run.rng.sample(lists, 20) + [[]]
        else:
            lists = [run.rng.sample(range(N), run.rng.randint(0, N)) for _ in range(4 if quick else 12)] + [[]]
        for ids in lists + [None]:
            tag = "all" if ids is None else ",".join(map(str, ids))
            for op in BULK:
                run.prove(f"{op}[n={n},ids={tag}]", GS.sc_game_bulk_set, {"n": n, "op": op, "coalitions": ids})
            if ids is None or len(ids) <= 4 or not quick:
                run.prove(f"bulk_getters[n={n},ids={tag}]", GS.sc_game_bulk_getters, {"n": n, "coalitions": ids}, max_paths=64)
        # the protocol declares Iterable[Coalition]: one-shot iterables must behave like lists
        some = [l for l in lists if l][:3]
        for ids in some:
            tag = ",".join(map(str, ids))
            for kind in ("tuple", "generator", "map", "iter"):
                run.prove(f"bulk_getters[n={n},ids={tag},{kind}]", GS.sc_game_bulk_getters, {"n": n, "coalitions": ids, "kind": kind}, max_paths=64)
            for kind in ("generator", "map"):
                for op in BULK:
                    run.prove(f"{op}[n={n},ids={tag},{kind}]", GS.sc_game_bulk_set, {"n": n, "op": op, "coalitions": ids, "kind": kind})
        if n <= 3 or not quick:
            run.prove(f"algebra[n={n}]", GS.sc_game_algebra, {"n": n})
        run.prove(f"add[n={n}]", GS.sc_game_add, {"n": n})
    run.discharge()
    evals = fails = 0
    for n in (1, 2, 3, 4, 5):
        for _ in range(10 if quick else 80):
            evals += 1
            w = history_check(run, n, run.rng.randint(1, 50))
            if w:
                fails += 1
                run._report_violation(f"history[n={n}]/view_matches_model", GS.sc_game_constructor, {"n": n}, {"history": w}, True,
                                      detail={"layer": "bounded", "history": w})
                break
    run.native_evals += evals
    run.native_distinct.update(("hist", j) for j in range(evals))
    run.bounded.append({"label": "random operation histories vs dictionary model", "evaluations": evals, "failures": fails,
                        "bound": "histories of 1..50 operations, n=1..5, lists with repetitions and empty lists"})
    return run.finish(
        explanation="Every public method of IncompleteCooperativeGame proved against the abstract view (known, lower, upper) from "
                    "an arbitrary symbolic table satisfying the representation invariant, with the postcondition stated over the "
                    "whole view (touched rows and all other rows unchanged): since each operation is proved from an arbitrary "
                    "invariant state, 'known iff set/revealed and not since unset/bulk-reset' holds after every history. "
                    "Getters raise / return None / NaN exactly for unknown coalitions (NaN modelled as a poison symbol).")
