"""Entry point: python -m props.main <Cxx> [--tier quick|thorough] [--replay FILE]"""
import argparse
import importlib
import json
import os
import sys
import traceback

sys.setrecursionlimit(20000)


def replay(path):
    from pyvc.mode import NativeMode, PreconditionNotMet
    from props import scenarios
    d = json.load(open(path))
    scen = scenarios.REGISTRY.get(d["scenario"])
    if scen is None:
        print(f"replay: scenario {d['scenario']} has no native form (ghost lemma); solver output is in the file")
        return 0
    tol = (d.get("detail") or {}).get("tolerance")
    M = NativeMode(d["inputs"], tol=1e-9 if tol is None else float(tol))
    exc = None
    try:
        scen(M, **d["params"])
    except PreconditionNotMet:
        print("replay: precondition not met natively")
        return 0
    except Exception as e:
        exc = e
    print("replay:", d["obligation"])
    print("  failed checks:", [f[0] for f in M.failures], "exception:", repr(exc))
    return 1 if (M.failures or exc) else 0


def main():
    ap = argparse.ArgumentParser()
    ap.add_argument("pid")
    ap.add_argument("--tier", default=os.environ.get("VERIF_TIER", "quick"), choices=["quick", "thorough"])
    ap.add_argument("--replay")
    a = ap.parse_args()
    if a.replay:
        sys.exit(replay(a.replay))
    seed = int(os.environ.get("VERIF_SEED", "0") or 0)
    try:
        mod = importlib.import_module(f"props.{a.pid}")
        from pyvc.report import Run
        run = Run(a.pid, a.tier, seed, level=getattr(mod, "LEVEL", "proof"))
        code = mod.main(run)
    except SystemExit:
        raise
    except BaseException:
        traceback.print_exc()
        print(f"{a.pid} CHECKER-ERROR: the checker itself crashed (not a verdict)")
        sys.exit(3)
    sys.exit(code)


if __name__ == "__main__":
    main()
