"""C19 / C20: saving results, over the abstract file system SpecFS (pyvc/stubs_fs.py)."""
from __future__ import annotations

import os
from argparse import Namespace

from props.scenarios import scenario
from pyvc import stubs_fs as FSM


def save_package():
    """The repository with run/save.py's `json` and `os` resolving to the SpecFS contracts."""
    from pyvc import loader
    fs = FSM.FS()
    js = FSM.SpecJSON()
    pkg = loader.Package(stubs={"json": js, "os": FSM.SpecOS(fs), "tempfile": FSM.SpecTempfile(fs), "shutil": FSM.SpecShutil(fs)})
    pkg.fs, pkg.js = fs, js
    return pkg


# names of earlier runs, all different from the saved name "run-7" but close to it
OTHER_NAMES = ["run-7.bak", "run-7.1", "x/run-7", "RUN-7", "run-7 ", "run-70", "run-", "2024-03-07T10:15:42.104233"]


def _output(M, save, rows, cols, tag="o"):
    np_ = save.np
    data = np_.zeros((rows + 1, cols), np_.float64)
    actions = np_.zeros((rows, cols), np_.float64)
    for i in range(rows + 1):
        for j in range(cols):
            data[i, j] = M.real(f"{tag}d{i}_{j}")
    for i in range(rows):
        for j in range(cols):
            actions[i, j] = M.real(f"{tag}a{i}_{j}")
    args = Namespace(func=lambda: None, seed=3, name="x")
    return save.Output(data, actions, args)


@scenario
def sc_save_json(M, file_exists, rows=2, cols=2, atomic=True, leftovers=False):
    """save_json(path, name, out) over SpecFS, for an ARBITRARY earlier mapping D (membership of `name` symbolic):
    C19  name in D  => no effect on the file system at all; otherwise the new document is D + {name: out.json},
         nothing of D is overwritten or deleted, no other file remains changed;
    C20  after EVERY prefix of the effect trace the content of the results file is either exactly the old
         content or a complete new document (never truncated / partial / missing)."""
    if not M.symbolic:
        return _native_save_crash(M, file_exists, rows, cols, leftovers) if atomic else None
    save = M.mod("run.save")
    fs = M.pkg.fs
    fs.files.clear(); fs.dirs.clear(); del fs.trace[:]; del fs.snapshots[:]
    # leftovers: the directory may hold files an earlier crashed save left behind (any sibling the code writes to is
    # then an existing file with stale bytes of unknown length) - histories "crash, then save" in one step
    fs.stale_siblings = bool(leftovers)
    fs.fresh_paths = ()
    present = M.bool("name_already_saved")
    D = FSM.SymDict(lambda k: present, other_keys=OTHER_NAMES)
    D.name = "run-7"
    path = FSM.SpecPath(fs, "/results/data.json")
    fs.dirs.add("/results")
    old = None
    if file_exists:
        old = FSM.Doc(D, "json")
        fs.files[path.p] = old
    else:
        M.assume(M.not_(present))
    other_before = dict(fs.files)
    out = _output(M, save, rows, cols)
    save.save_json(path, "run-7", out)
    final = fs.files.get(path.p)
    was_present = bool(present) if file_exists else False
    effects = [t for t in fs.trace if t[0] not in ("exists", "read_text", "open-read")]
    if was_present:
        M.check("existing_name.no_effects", len(effects) == 0 and final is old)
        return
    # C19 functional contract
    ok_doc = isinstance(final, FSM.Doc) and final.kind == "json" and final is not old
    M.check("new_name.document_written", ok_doc)
    newmap = final.obj if ok_doc else None
    if file_exists:
        M.check("new_name.is_old_mapping_plus_entry", newmap is D and set(D.added) == {"run-7"}
                and not getattr(D, "overwritten", None) and not getattr(D, "deleted", None)
                and set(D) == set(OTHER_NAMES) | {"run-7"})
        entry = D.added.get("run-7")
    else:
        M.check("new_name.is_singleton_mapping", isinstance(newmap, dict) and set(newmap) == {"run-7"})
        entry = newmap.get("run-7") if isinstance(newmap, dict) else None
    M.check("new_name.entry_is_output_json", isinstance(entry, dict) and set(entry) == {"data", "actions", "metadata"}
            and entry["data"] == out.data_list and entry["actions"] == out.actions_list)
    leftovers = {p for p in fs.files if p != path.p and p not in other_before}
    M.check("new_name.no_stray_files", not leftovers)
    if not atomic:
        return
    # C20 all-or-nothing at every crash point
    bad = []
    for i, snap in enumerate(fs.snapshots):
        c = snap.get(path.p)
        fine = (c is old) or (isinstance(c, FSM.Doc) and c.kind == "json" and c is not old)
        if not fine:
            bad.append((i, fs.trace_effects()[i] if hasattr(fs, "trace_effects") else None, repr(c)))
    M.meta["trace"] = [(op, p) for op, p, _ in fs.trace]
    M.check("atomic.every_crash_point", not bad, first_bad=str(bad[:1]), trace=str([(op, p) for op, p, _ in fs.trace]))
    # interruptions delivered as an EXCEPTION (Ctrl-C, SIGTERM handler, MemoryError) at every operation: `finally` blocks
    # and context managers run while the exception unwinds - afterwards the file must still be the old or the new one
    m = fs.points
    bad_int = []
    for k in range(m):
        for mid in (False, True):
            fs.files.clear(); del fs.trace[:]; del fs.snapshots[:]
            fs.points = 0
            D2 = FSM.SymDict(lambda key: False, other_keys=OTHER_NAMES)
            D2.name = "run-7"
            old2 = None
            if file_exists:
                old2 = FSM.Doc(D2, "json")
                fs.files[path.p] = old2
            fs.interrupt_at, fs.interrupt_mid_write = k, mid
            try:
                save.save_json(path, "run-7", out)
                interrupted = False
            except KeyboardInterrupt:
                interrupted = True
            finally:
                fs.interrupt_at = None
            c = fs.files.get(path.p)
            fine = (c is old2) or (isinstance(c, FSM.Doc) and c.kind == "json" and c is not old2)
            if not fine:
                bad_int.append((k, mid, interrupted, repr(c), [(op, p_) for op, p_, _ in fs.trace][-3:]))
    M.check("atomic.every_interruption_by_exception", not bad_int, first_bad=str(bad_int[:1]))


@scenario
def sc_save_twice(M, rows=1, cols=2):
    """Two saves by this process with ANOTHER process saving in between (the results file is the only state a save
    may rely on): the second save must start from what is in the file now - the other run's entry survives, the
    entry of the first save survives, and the new entry is added."""
    if not M.symbolic:
        return _native_save_twice(M, rows, cols)
    save = M.mod("run.save")
    fs = M.pkg.fs
    fs.files.clear(); fs.dirs.clear(); del fs.trace[:]; del fs.snapshots[:]
    fs.stale_siblings = False
    path = FSM.SpecPath(fs, "/results/data.json")
    fs.dirs.add("/results")
    D1 = FSM.SymDict(lambda k: False, other_keys=OTHER_NAMES)
    D1.name = "run-7"
    fs.files[path.p] = FSM.Doc(D1, "json")
    save.save_json(path, "run-7", _output(M, save, rows, cols, tag="p"))
    first = fs.files.get(path.p)
    M.check("first.written", isinstance(first, FSM.Doc) and first.obj is D1 and set(D1.added) == {"run-7"})
    # another process: read the file, added its own run, wrote it back (atomically) - a different mapping object now
    D2 = FSM.SymDict(lambda k: False, other_keys=OTHER_NAMES + ["run-7", "run-of-another-process"])
    D2.name = "run-8"
    fs.files[path.p] = FSM.Doc(D2, "json")
    out2 = _output(M, save, rows, cols, tag="q")
    save.save_json(path, "run-8", out2)
    final = fs.files.get(path.p)
    ok = isinstance(final, FSM.Doc) and final.kind == "json"
    M.check("second.document_written", ok)
    M.check("second.starts_from_the_file_as_it_is_now", ok and final.obj is D2 and set(D2.added) == {"run-8"}
            and not getattr(D2, "overwritten", None) and not getattr(D2, "deleted", None))
    entry = D2.added.get("run-8")
    M.check("second.entry_is_output_json", isinstance(entry, dict) and entry.get("data") == out2.data_list
            and entry.get("actions") == out2.actions_list)


def _native_save_twice(M, rows, cols):
    import os
    import pathlib
    import shutil
    import tempfile
    import numpy as np
    save = M.mod("run.save")

    def out(i):
        d = np.arange((rows + 1) * cols, dtype=float).reshape(rows + 1, cols) * (i + 1) + 0.25
        a = np.arange(rows * cols, dtype=float).reshape(rows, cols)
        return save.Output(d, a, Namespace(func=len, seed=i))
    d = tempfile.mkdtemp(prefix="c19t_")
    try:
        path = pathlib.Path(d) / "data.json"
        save.save_json(path, "run-7", out(1))
        pid = os.fork()
        if pid == 0:                                   # the other process
            try:
                save.save_json(path, "run-of-another-process", out(2))
            finally:
                os._exit(0)
        os.waitpid(pid, 0)
        save.save_json(path, "run-8", out(3))
        got = save.get_outputs_from_file(path)
        M.check("first.written", "run-7" in got)
        M.check("second.document_written", "run-8" in got)
        M.check("second.starts_from_the_file_as_it_is_now", set(got) == {"run-7", "run-of-another-process", "run-8"}
                and np.array_equal(got["run-of-another-process"].data, out(2).data))
        M.check("second.entry_is_output_json", "run-8" in got and np.array_equal(got["run-8"].data, out(3).data))
        # the file moved away between two saves: the next save starts a fresh document
        os.rename(path, str(path) + ".archived")
        save.save_json(path, "run-9", out(4))
        got2 = save.get_outputs_from_file(path)
        M.check("second.starts_from_the_file_as_it_is_now", set(got2) == {"run-9"})
    finally:
        shutil.rmtree(d, ignore_errors=True)


@scenario
def sc_save_pipeline(M, rows=2, cols=2):
    """save(model_dir, name, out) - the entry point every command uses, ALL registered savers in their registered order
    (plots, data.json, coalition charts) - for a new run name: the entry written to data.json carries exactly the
    matrices the Output held when save() was called, and save() leaves the caller's matrices as they were.
    Symbolically: matplotlib is an inert stub, the file system is SpecFS, gap cells are symbols of either sign."""
    if not M.symbolic:
        return _native_save_pipeline(M, rows, cols)
    save = M.mod("run.save")
    fs = M.pkg.fs
    fs.files.clear(); fs.dirs.clear(); del fs.trace[:]; del fs.snapshots[:]
    root = FSM.SpecPath(fs, "/results")
    out = _output(M, save, rows, cols)
    for i in range(rows):
        for j in range(cols):
            out.actions[i, j] = float(3 + (i + 2 * j) % 3)          # concrete coalition ids for the chart saver
    data0 = [[out.data[i, j] for j in range(cols)] for i in range(rows + 1)]
    acts0 = [[out.actions[i, j] for j in range(cols)] for i in range(rows)]
    save.save(root, "run-7", out)
    final = fs.files.get("/results/data.json")
    ok_doc = isinstance(final, FSM.Doc) and final.kind == "json" and isinstance(final.obj, dict) and set(final.obj) == {"run-7"}
    M.check("pipeline.document_written", ok_doc)
    entry = final.obj["run-7"] if ok_doc else {"data": [], "actions": []}
    M.check("pipeline.shapes", len(entry["data"]) == rows + 1 and all(len(r) == cols for r in entry["data"]))
    for i in range(rows + 1):
        for j in range(cols):
            M.check(f"pipeline.saved_gap_is_produced_gap[{i},{j}]", M.val(entry["data"][i][j]) == M.val(data0[i][j]))
            M.check(f"pipeline.callers_gap_matrix_untouched[{i},{j}]", M.val(out.data[i, j]) == M.val(data0[i][j]))
    for i in range(rows):
        for j in range(cols):
            M.check(f"pipeline.saved_action_is_produced_action[{i},{j}]", M.val(entry["actions"][i][j]) == M.val(acts0[i][j]))


def _native_save_pipeline(M, rows, cols):
    """Native: the real save() (real matplotlib, Agg backend) into a temporary directory."""
    import pathlib
    import shutil
    import tempfile
    import numpy as np
    import matplotlib
    matplotlib.use("Agg")
    save = M.mod("run.save")
    data = np.array([[M.real(f"od{i}_{j}") for j in range(cols)] for i in range(rows + 1)], dtype=float)
    acts = np.array([[float(3 + (i + 2 * j) % 3) for j in range(cols)] for i in range(rows)], dtype=float)
    out = save.Output(data.copy(), acts.copy(), Namespace(func=lambda: None, seed=3, name="x"))
    d = tempfile.mkdtemp(prefix="c19p_")
    try:
        save.save(pathlib.Path(d), "run-7", out)
        got = save.Output.from_file(pathlib.Path(d) / "data.json", "run-7")
        M.check("pipeline.document_written", True)
        M.check("pipeline.shapes", got.data.shape == data.shape)
        for i in range(rows + 1):
            for j in range(cols):
                M.check(f"pipeline.saved_gap_is_produced_gap[{i},{j}]", float(got.data[i, j]) == float(data[i, j]))
                M.check(f"pipeline.callers_gap_matrix_untouched[{i},{j}]", float(out.data[i, j]) == float(data[i, j]))
        for i in range(rows):
            for j in range(cols):
                M.check(f"pipeline.saved_action_is_produced_action[{i},{j}]", float(got.actions[i, j]) == float(acts[i, j]))
    finally:
        shutil.rmtree(d, ignore_errors=True)


def _native_save_crash(M, file_exists, rows, cols, leftovers=False):
    """Native replay: the real save_json with the k-th write/close/replace made to fail, for every k."""
    from rt import crash
    if leftovers:
        bad = crash.crash_then_save(1 if file_exists else 0, rows, cols)
        M.check("new_name.document_written", not bad)
        M.check("atomic.every_crash_point", not bad)
        M.meta["crash_witnesses"] = bad[:3]
        return
    bad = crash.crash_sweep(1 if file_exists else 0, rows, cols)
    M.check("atomic.every_crash_point", not bad)
    M.meta["crash_witnesses"] = bad[:3]


@scenario
def sc_output_roundtrip(M, rows=2, cols=2, nan=True, three_d=False):
    """from_json(loads(dumps(out.json))) has equal data (dtype float64) and actions; NaN cells are carried through
    untouched; metadata equal up to json_serializer (run_type derived from func)."""
    save = M.mod("run.save")
    np_ = save.np
    out = _output(M, save, rows, cols)
    if three_d:
        # the best_states command writes a NaN-padded action array of shape (steps+1, eval_repetitions, steps)
        a3 = np_.full((rows + 1, 2, rows), np_.nan)
        for i in range(rows + 1):
            for r in range(2):
                for j in range(i if i <= rows else rows):
                    a3[i, r, j] = M.real(f"b{i}_{r}_{j}")
        out = save.Output(out.data, a3, out.parsed_args)
        doc3 = out.json
        back3 = save.Output.from_json(_deep(doc3))
        M.check("actions3d.shape", tuple(back3.actions.shape) == (rows + 1, 2, rows))
        if tuple(back3.actions.shape) == (rows + 1, 2, rows):
            for i in range(rows + 1):
                for r in range(2):
                    for j in range(rows):
                        if j < i:
                            M.check(f"actions3d[{i},{r},{j}]", M.val(back3.actions[i, r, j]) == M.val(a3[i, r, j]))
                        else:
                            M.check(f"actions3d.nan[{i},{r},{j}]", M.is_nan(back3.actions[i, r, j]))
        return
    if nan:
        out.actions[0, 0] = np_.nan
    doc = out.json
    import copy
    back = save.Output.from_json(copy.deepcopy(doc) if not M.symbolic else _deep(doc))
    M.check("shape.data", tuple(back.data.shape) == (rows + 1, cols))
    M.check("shape.actions", tuple(back.actions.shape) == (rows, cols))
    for i in range(rows + 1):
        for j in range(cols):
            M.check(f"data[{i},{j}]", M.val(back.data[i, j]) == M.val(out.data[i, j]))
    for i in range(rows):
        for j in range(cols):
            if nan and (i, j) == (0, 0):
                M.check("actions.nan_kept", M.is_nan(back.actions[0, 0]))
            else:
                M.check(f"actions[{i},{j}]", M.val(back.actions[i, j]) == M.val(out.actions[i, j]))
    md = doc["metadata"]
    M.check("metadata.run_type", md.get("run_type") == "learn" and "func" not in md)
    M.check("metadata.rest", {k: v for k, v in md.items() if k != "run_type"} == {"seed": 3, "name": "x"})
    M.check("metadata.back", vars(back.parsed_args) == {"seed": 3, "name": "x", "run_type": "learn", "func": "learn"})


def _deep(x):
    if isinstance(x, dict):
        return {k: _deep(v) for k, v in x.items()}
    if isinstance(x, list):
        return [_deep(v) for v in x]
    return x
