"""C14  Regret minimiser: constructible at every size; strategies valid distributions."""
from __future__ import annotations

from props import regret_scenarios as RS

LEVEL = "other"


def native_histories(run, n, limit, plus, iters):
    """Bounded: the real class (float32), random non-negative terminal vectors, all nodes checked after every iteration;
    save/load through a real temporary directory continues identically."""
    import pathlib
    import shutil
    import tempfile
    import numpy as np
    from itertools import combinations
    from pyvc.mode import native_pkg
    P = native_pkg()
    rg, co = P.mod("regret"), P.mod("coalitions")
    rm = rg.GameRegretMinimizer(n, limit, plus)
    v = RS.viable(n)
    hist = [[co.Coalition(c) for c in combo] for combo in combinations(v, min(limit, len(v)))]
    rng = np.random.default_rng(run.rng.randrange(1 << 30))
    for it in range(iters):
        before = rm.cumulative_regret.copy()
        sig = [rm.regret_matching_strategy(int(rm.meta_rank_to_id[k])) for k in range(rm.number_of_regret_minimizers)]
        losses = rng.random(len(hist)) * rng.choice([0.0, 1.0, 10.0])
        rm.regret_min_iteration(losses, hist)
        for k in range(rm.number_of_regret_minimizers):
            meta = int(rm.meta_rank_to_id[k])
            used = RS._members(meta)
            s = rm.regret_matching_strategy(meta)
            a = rm.get_average_strategy([co.Coalition(v[i]) for i in used])
            ok = abs(s.sum() - 1) < 1e-5 and (s >= 0).all() and all(s[i] == 0 for i in used)
            ok = ok and abs(a.sum() - 1) < 1e-5 and (a >= 0).all() and all(a[c] == 0 for c in range(1 << n) if c not in v or v.index(c) in used)
            if plus:
                ok = ok and (rm.cumulative_regret >= 0).all()
            else:
                ok = ok and abs(float(np.dot(sig[k], (rm.cumulative_regret - before)[k]))) < 1e-4 * max(1.0, float(np.abs(losses).max()))
            if not ok or rm.iteration != it + 1:
                return {"n": n, "limit": limit, "plus": plus, "iteration": it, "node": k}
    d = tempfile.mkdtemp(prefix="c14_")
    try:
        rm.save(pathlib.Path(d))
        rm2 = rg.GameRegretMinimizer.load(pathlib.Path(d))
        for _ in range(3):
            losses = rng.random(len(hist))
            rm.regret_min_iteration(losses, hist)
            rm2.regret_min_iteration(losses, hist)
            if not (np.array_equal(rm.cumulative_regret, rm2.cumulative_regret) and np.array_equal(rm.cumulative_strategy, rm2.cumulative_strategy)
                    and rm.iteration == rm2.iteration):
                return {"n": n, "limit": limit, "plus": plus, "what": "loaded minimiser diverges"}
    finally:
        shutil.rmtree(d, ignore_errors=True)
    return None


def native_twins(run, n, limit, plus, iters):
    """Bounded: several minimisers alive in one process and used alternately (iterations, strategy queries, a loaded
    copy), against the SAME history run alone in a fork()ed process: regret and strategy tables must be bit-identical
    - nothing may leak between minimiser objects; and a minimiser loaded from a checkpoint, then driven through the
    iterations the original had gone through after the checkpoint (with queries in between), ends in the same tables."""
    import os
    import pathlib
    import pickle
    import shutil
    import tempfile
    import numpy as np
    from itertools import combinations
    from pyvc.mode import native_pkg
    P = native_pkg()
    rg, co = P.mod("regret"), P.mod("coalitions")
    v = RS.viable(n)
    hist = [[co.Coalition(c) for c in combo] for combo in combinations(v, min(limit, len(v)))]
    rng = np.random.default_rng(run.rng.randrange(1 << 30))
    losses = [rng.random(len(hist)) * rng.choice([1.0, 10.0]) for _ in range(iters)]

    def alone():
        rm = rg.GameRegretMinimizer(n, limit, plus)
        for L in losses:
            rm.regret_min_iteration(L, hist)
        return rm.cumulative_regret.copy(), rm.cumulative_strategy.copy(), rm.iteration

    r, w = os.pipe()
    pid = os.fork()
    if pid == 0:
        try:
            os.close(r)
            with os.fdopen(w, "wb") as f:
                f.write(pickle.dumps(alone()))
        finally:
            os._exit(0)
    os.close(w)
    with os.fdopen(r, "rb") as f:
        ref = pickle.loads(f.read())
    os.waitpid(pid, 0)
    a = rg.GameRegretMinimizer(n, limit, plus)
    b = rg.GameRegretMinimizer(n, limit, not plus)
    small = rg.GameRegretMinimizer(3, 1, plus)
    d = tempfile.mkdtemp(prefix="c14t_")
    try:
        half = iters // 2
        for t, L in enumerate(losses):
            if t == half:
                a.save(pathlib.Path(d))
            b.regret_matching_strategy(0)
            small.regret_matching_strategy(0)
            a.regret_min_iteration(L, hist)
            a.regret_matching_strategy(0)
            b.regret_min_iteration(L[::-1].copy(), hist)
            b.get_average_strategy([])
        if not (np.array_equal(a.cumulative_regret, ref[0]) and np.array_equal(a.cumulative_strategy, ref[1]) and a.iteration == ref[2]):
            return {"n": n, "limit": limit, "plus": plus, "what": "a minimiser used next to other minimisers differs from the same history run alone"}
        a2 = rg.GameRegretMinimizer.load(pathlib.Path(d))
        for L in losses[half:]:
            b.regret_matching_strategy(0)
            a2.regret_min_iteration(L, hist)
            a.regret_matching_strategy(0)
        if not (np.array_equal(a2.cumulative_regret, ref[0]) and np.array_equal(a2.cumulative_strategy, ref[1]) and a2.iteration == ref[2]):
            return {"n": n, "limit": limit, "plus": plus, "what": "a loaded minimiser replaying the iterations after the checkpoint does not continue identically"}
    finally:
        shutil.rmtree(d, ignore_errors=True)
    return None


def main(run):
    pkg = RS.regret_package()
    run.pkg = pkg
    run.auto_fallback_tol = 1e-5        # the minimiser stores float32: natively "sums to one" holds to single precision
    run.under_contract(pkg, "regret", ["metacoalition_ids_by_coalition_size", "coalitions_up_to", "get_coalition_player_id_map",
                                       "GameRegretMinimizer.__init__", "GameRegretMinimizer.save", "GameRegretMinimizer.load",
                                       "GameRegretMinimizer.get_metacoalition_id", "GameRegretMinimizer.regret_matching_strategy",
                                       "GameRegretMinimizer.get_average_strategy", "GameRegretMinimizer.regret_min_iteration"])
    run.stubs_used.update(["SpecFS / SpecJSON / np.save / np.load contracts (save, load)"])
    run.trusted.append("A6 SpecFS, JSON identity, np.save/np.load identity; scipy.special.comb (real, concrete arguments)")
    quick = run.tier == "quick"
    configs = [(3, l) for l in (1, 2, 3, 4, 5, 60)] + [(4, l) for l in range(1, 12)] + [(5, l) for l in ((1, 2) if quick else (1, 2, 3))]
    for n, l in configs:
        run.prove(f"constructor[n={n},limit={l}]", RS.sc_regret_constructor, {"n": n, "limit": l}, pkg=pkg)
    # limits beyond the number of viable coalitions (3 at n=3) are part of 'every reveal limit >= 1'
    # (4, 2) was tried in the thorough tier: one path of the iteration scenario takes ~16 s of symbolic execution there and
    # the tree has hundreds - more than an hour even on 16 cores; it is covered by the bounded float32 histories instead
    iter_cfg = [(3, 1), (3, 2), (3, 3), (3, 4), (4, 1)] if quick else [(3, 1), (3, 2), (3, 3), (3, 4), (3, 7), (4, 1)]
    for n, l in iter_cfg:
        for plus in (False, True):
            p = {"n": n, "limit": l, "plus": plus}
            rm_probe = pkg.mod("regret").GameRegretMinimizer(n, l, plus)
            for node in range(rm_probe.number_of_regret_minimizers):
                run.prove(f"strategies[n={n},limit={l},plus={plus},node={node}]", RS.sc_regret_strategies, dict(p, node=node), pkg=pkg)
                if (n, l) in ((3, 2), (4, 1)) and node in (0, 1):
                    # a second minimiser of the same shape (other variant, other state) is alive and answers first
                    run.prove(f"strategies.two_minimisers[n={n},limit={l},plus={plus},node={node}]", RS.sc_regret_strategies,
                              dict(p, node=node, other_first=True), pkg=pkg)
            # orthogonality is QF_NRA; beyond limit 2 neither solver decides it within 3 x 300 s (measured in the thorough
            # tier), so it is asked only where it is decided; the bounded layer checks it on float32 histories everywhere
            prove = run.prove_parallel if (n, l) == (4, 2) else run.prove
            prove(f"iteration[n={n},limit={l},plus={plus}]", RS.sc_regret_iteration,
                  dict(p, orth=((n, l) in ((3, 1), (3, 2)))), pkg=pkg, max_paths=70000)
            if (n, l) in ((3, 2), (3, 1), (4, 1)):
                run.prove(f"save_load[n={n},limit={l},plus={plus}]", RS.sc_regret_save_load, p, pkg=pkg)
    run.discharge()
    evals = fails = 0
    for n, l in [(3, 1), (3, 2), (3, 3), (3, 4), (3, 9), (4, 1), (4, 2), (4, 3)] + ([] if quick else [(4, 5), (4, 10), (4, 11), (5, 1), (5, 2)]):
        for plus in (False, True):
            evals += 1
            try:
                w = native_histories(run, n, l, plus, 10 if quick else 50)
            except Exception as e:
                w = {"n": n, "limit": l, "plus": plus, "raised": f"{type(e).__name__}: {e}"}
            if w:
                fails += 1
                run._report_violation(f"native[n={n},limit={l},plus={plus}]/history", RS.sc_regret_iteration, {"n": n, "limit": l, "plus": plus},
                                      w, True, detail={"layer": "bounded", "witness": w})
    for n, l in [(3, 2), (4, 1), (4, 2)] + ([] if quick else [(3, 3), (4, 3), (5, 1)]):
        for plus in (False, True):
            evals += 1
            try:
                w = native_twins(run, n, l, plus, 4 if quick else 10)
            except Exception as e:
                w = {"n": n, "limit": l, "plus": plus, "raised": f"{type(e).__name__}: {e}"}
            if w:
                fails += 1
                run._report_violation(f"native.twins[n={n},limit={l},plus={plus}]/independent_of_other_minimisers", RS.sc_regret_iteration,
                                      {"n": n, "limit": l, "plus": plus}, w, True, detail={"layer": "bounded", "witness": w})
    run.native_evals += evals
    run.native_distinct.update(("rm", j) for j in range(evals))
    run.bounded.append({"label": "real class, float32, random non-negative terminal vectors", "evaluations": evals, "failures": fails,
                        "bound": "10 (50) iterations per configuration, every node checked after every iteration, save/load via a real directory"})
    return run.finish(
        explanation="Constructor and ranking bijection checked for every configuration (n=3 limits 1..5 and beyond, n=4 limits 1..11, "
                    "n=5 limits 1..2/3) by concrete execution under the model; from an ARBITRARY symbolic state satisfying the regret "
                    "invariant, with symbolic non-negative terminal values and a symbolic iteration counter: every current and average "
                    "strategy is a distribution with no mass on revealed / non-viable coalitions, one iteration preserves the "
                    "invariant, the added regret is orthogonal to the played strategy (QF_NRA), plus keeps regret >= 0, and "
                    "load(save(x)) has equal fields and continues identically (SpecFS). float32 treated as reals; float behaviour bounded.")
