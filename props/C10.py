"""C10  Every offered game generator runs and yields a game of its assumed class."""
from __future__ import annotations

from props import generator_scenarios as GS

LEVEL = "other"

DEDUCTIVE_QUICK = {
    # key -> player counts proved on every change
    **{k: (3, 4) for k in ("factory", "factory_one", "factory_square", "factory_exp", "factory_fixed", "factory_cheerleader",
                           "factory_cheerleader_next", "noisy_factory", "noisy_factory_square", "noisy_factory_exp",
                           "noisy_factory_fixed", "predictible_factory")},
    **{k: (3,) for k in ("graph", "graph_tirangular", "graph_increasing", "graph_decreasing", "graph_03_03", "graph_beta_1_1",
                         "graph_beta_5_5", "graph_beta_2_4", "graph_poiss_0.1", "graph_poiss_50")},
    **{k: (3, 4) for k in ("graph_random", "graph_ws_connected", "graph_internet", "graph_geometric", "graph_geographical_treshold",
                           "graph_cycle")},
    **{k: (3,) for k in ("xos", "xos_one", "xos2", "xos3", "xos2_norm_additive", "xs", "xs2", "xs3")},
    "k_budget_generator": (3, 4, 5),
}
DEDUCTIVE_THOROUGH_EXTRA = {"xos3_norm_additive": (3,), "xos12": (3,), "xos_norm_additive": (3,), "xos12_norm_additive": (3,), "xs6": (3,), "oxs": (3,),
                            "xos": (4,), "xs": (4,), "graph": (4, 5), "graph_cycle": (5,)}
BOUNDED_ONLY = {"covg_fn_generator": "Python set algebra over a list indexed by a vector-valued draw is outside the model",
                "oxs": "min-convolution of six XS functions: feasibility queries go unknown (quick tier)"}


def fresh_references(ns, seeds):
    """'Identically seeded calls return identical games' - whatever the process did before.  Each (key, n, seed) is
    computed in a fork()ed child of the still pristine parent (no generator has been called natively yet); native_all
    later compares what the parent returns after the whole registry has been exercised in it."""
    import os
    import pickle
    import numpy as np
    from pyvc.mode import native_pkg
    P = native_pkg()
    gens = P.mod("generators").GENERATORS
    ref = {}
    for key in sorted(gens):
        if key == "convex" or GS.ignores_rng(key):
            continue
        for n in ns:
            for seed in seeds:
                r, w = os.pipe()
                pid = os.fork()
                if pid == 0:
                    try:
                        os.close(r)
                        try:
                            vals = np.array(gens[key](n, np.random.default_rng(seed)).get_values(), copy=True)
                            payload = pickle.dumps(vals)
                        except BaseException as e:
                            payload = pickle.dumps(f"{type(e).__name__}: {e}")
                        with os.fdopen(w, "wb") as f:
                            f.write(payload)
                    finally:
                        os._exit(0)
                os.close(w)
                with os.fdopen(r, "rb") as f:
                    data = f.read()
                os.waitpid(pid, 0)
                try:
                    ref[key, n, seed] = pickle.loads(data)
                except Exception:
                    pass
    return ref


def native_all(run, ns, seeds, fresh=None):
    """Bounded: the real registry, every key except 'convex': full contract incl. determinism by re-seeding."""
    import numpy as np
    from pyvc.mode import native_pkg
    P = native_pkg()
    gens = P.mod("generators").GENERATORS
    gp = P.mod("game_properties")
    rows = []
    fresh = fresh or {}
    for key in sorted(gens):
        if key == "convex":
            continue
        evals = fails = 0
        for n in ns:
            for seed in seeds:
                evals += 1
                problems = []
                try:
                    g = gens[key](n, np.random.default_rng(seed))
                    vals = np.array(g.get_values(), copy=True)
                    if g.number_of_players != n or vals.shape != (1 << n,) or vals.dtype != np.float64 or vals[0] != 0:
                        problems.append("shape/dtype/empty")
                    if not gp.is_superadditive(g):
                        problems.append("superadditive")
                    if key in GS.SAM_KEYS and not gp.is_monotone_decreasing(g):
                        problems.append("monotone")
                    other = gens[key](n, np.random.default_rng(seed + 1))
                    snap = np.asarray(other.get_values()).copy()
                    if hasattr(g, "_graph_matrix"):
                        g._graph_matrix[0, n - 1] += 5
                    else:
                        g.set_value(vals[3] + 5, P.mod("coalitions").Coalition(3))
                    if other is g or not np.array_equal(np.asarray(other.get_values()), snap):
                        problems.append("independent_of_other_results")
                    if not GS.ignores_rng(key):
                        g2 = gens[key](n, np.random.default_rng(seed))
                        if not np.array_equal(np.asarray(g2.get_values()), vals):
                            problems.append("deterministic")
                        want = fresh.get((key, n, seed))
                        if isinstance(want, np.ndarray) and not np.array_equal(want, vals):
                            problems.insert(0, "deterministic_across_histories (a fresh process returns a different game for this key, "
                                               "player count and seed than this process does after other generators have been used)")
                except Exception as e:
                    problems.append(f"raises-nothing ({type(e).__name__}: {e})")
                if problems:
                    fails += 1
                    if fails <= 1:
                        run._report_violation(f"native[{key},n={n}]/{problems[0].split(' ')[0]}", GS.sc_generator, {"key": key, "n": n},
                                              {"seed": seed}, True, detail={"layer": "bounded", "problems": problems, "seed": seed})
        # the same (n, seed) again AFTER larger player counts were generated in this process (state memoised per size,
        # a table kept for the largest size seen, ...): must still be the game a fresh process returns
        if not GS.ignores_rng(key):
            for (k2, n2, s2), want in sorted(fresh.items()):
                if k2 != key or not isinstance(want, np.ndarray) or n2 >= max(ns):
                    continue
                evals += 1
                try:
                    again = np.asarray(gens[key](n2, np.random.default_rng(s2)).get_values())
                    bad = not np.array_equal(again, want)
                except Exception:
                    bad = True
                if bad:
                    fails += 1
                    if fails <= 1:
                        why = ("deterministic_across_histories (after larger player counts were generated in this process the "
                               "generator returns a different game for this key, player count and seed than a fresh process)")
                        run._report_violation(f"native[{key},n={n2}]/deterministic_after_larger_n", GS.sc_generator, {"key": key, "n": n2},
                                              {"seed": s2}, True, detail={"layer": "bounded", "problems": [why], "seed": s2})
        run.native_evals += evals
        run.native_distinct.update(("gen", key, j) for j in range(evals))
        rows.append({"key": key, "evaluations": evals, "failures": fails})
    return rows


def main(run):
    # before anything is called natively in this process
    fresh = fresh_references((3, 4, 5), range(run.seed, run.seed + 2))
    pkg = GS.generator_package()
    run.pkg = pkg
    run.allow_pruned = True       # rejection-sampling loops (factory_cheerleader) are explored up to 3 re-draws
    run.under_contract(pkg, "generators", ["factory_generator", "factory_cheerleader_generator", "factory_cheerleader_next_generator",
                                           "predictible_factory_generator", "graph_generator", "graph_to_game", "graph_gen_to_game",
                                           "cycle", "additive", "xos", "xos_norandom", "xs", "_apply_or", "oxs", "k_budget_generator",
                                           "covg_fn_generator"])
    run.under_contract(pkg, "graph_game", ["GraphCooperativeGame.__init__", "GraphCooperativeGame.get_value",
                                           "GraphCooperativeGame.get_values", "_polish_graph_matrix"])
    run.under_contract(pkg, "game_properties", ["is_superadditive", "is_sam"])
    run.stubs_used.update(["numpy.random.Generator (pyvc/rng.py): every draw a fresh symbol constrained by the open support; integer draws "
                           "and permutations enumerated; rejection loops explored up to 3 re-draws",
                           "math.exp: uninterpreted, monotone, positive, exp(0)=1", "networkx generators: some graph on n nodes, "
                           "adjacency entries >= 0"])
    run.trusted.append("A6 RNG support contract / exp axioms / networkx adjacency contract (pyvc/rng.py, pyvc/stubs_gen.py)")
    todo = {k: tuple(v) for k, v in DEDUCTIVE_QUICK.items()}
    if run.tier == "thorough":
        for k, v in DEDUCTIVE_THOROUGH_EXTRA.items():
            todo[k] = tuple(sorted(set(todo.get(k, ()) + v)))
        for a in range(1, 6):
            for b in range(1, 6):
                todo.setdefault(f"graph_beta_{a}_{b}", (3,))
        for lam in ("0.1", "0.01", "0.5", "1", "5", "10", "50"):
            todo.setdefault(f"graph_poiss_{lam}", (3,))
    for key, ns in sorted(todo.items()):
        for n in ns:
            second = not (key.startswith("xs") or key in ("graph_cycle", "oxs") or key.startswith("factory_cheerleader") or n > 4)
            run.prove(f"{key}[n={n}]", GS.sc_generator, {"key": key, "n": n, "second": second}, pkg=pkg, max_paths=5000,
                      fallback=(lambda key=key, n=n: run.bounded_run(f"fallback.{key}[n={n}]", GS.sc_generator, {"key": key, "n": n},
                                                                     [{"seed": s} for s in range(200)], bound="200 seeds")))
    run.discharge()
    quick = run.tier == "quick"
    rows = native_all(run, (3, 4, 5, 6) if quick else (3, 4, 5, 6, 7, 8), range(run.seed, run.seed + (4 if quick else 40)), fresh)
    run.bounded.append({"label": "the real registry (all keys but 'convex')", "rows": rows,
                        "bound": "n=3..6 (8 thorough) x seeded generators; class via the library's own predicates; determinism by re-seeding",
                        "bounded_only_keys": BOUNDED_ONLY})
    from pyvc import core
    return run.finish(
        explanation="Per builder and registry partial, for EVERY outcome of the random draws (draws are symbols constrained by their "
                    "support; integer draws/permutations enumerated): raises nothing (its own assert is_superadditive/is_sam "
                    "included), n players, 2^n values, v(empty)=0, exactly superadditive in real arithmetic, monotone for the "
                    "XOS/XS/K-budget families; all draws come from the supplied generator except for the documented exceptions. "
                    "covg_fn_generator and (quick tier) oxs are bounded only; dtype and float-level class membership bounded "
                    "on the real registry. Mixed deductive + bounded, hence level 'other'.",
        extra={"paths_pruned_by_redraw_limit": core.PRUNED[0]})
