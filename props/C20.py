"""C20  Saving results is all-or-nothing under a crash."""
from __future__ import annotations

from props import save_scenarios as SS

LEVEL = "proof"


def main(run):
    pkg = SS.save_package()
    run.pkg = pkg
    run.auto_fallback_samples = 3       # a native sample forks one child per crash point
    run.under_contract(pkg, "run.save", ["save_json", "json_serializer", "Output.json"])
    run.stubs_used.update(["SpecFS (pathlib.Path / os / open): open('w') truncates, content is an arbitrary prefix until close, "
                           "replace is atomic", "SpecJSON: loads(dumps(x)) == x", "SymDict: the earlier mapping is arbitrary"])
    run.trusted.append("A6 file-system contract of SpecFS (pyvc/stubs_fs.py) and JSON identity contract")
    shapes = [(1, 1), (2, 2), (4, 3)] if run.tier == "quick" else [(1, 1), (2, 2), (4, 3), (8, 5), (1, 7)]
    for ex in (True, False):
        for rows, cols in shapes:
            run.prove(f"save_json[file_exists={ex},shape={rows}x{cols}]", SS.sc_save_json,
                      {"file_exists": ex, "rows": rows, "cols": cols}, pkg=pkg)
        # the directory as an earlier CRASHED save may have left it: every sibling file the routine writes to exists
        # already, with stale bytes of unknown length (history "crash, then save" folded into the initial state)
        run.prove(f"save_json.after_crashed_save[file_exists={ex}]", SS.sc_save_json,
                  {"file_exists": ex, "rows": 2, "cols": 2, "leftovers": True}, pkg=pkg)
    run.discharge()
    # bounded / replay layer: the real function, real files, every crash point
    from rt import crash
    rows_ = []
    for earlier in ((0, 2) if run.tier == "quick" else (0, 1, 3)):
        for rows, cols in [(1, 1), (4, 3)] if run.tier == "quick" else shapes + ([(60, 40)] if earlier == 1 else []):
            bad = crash.crash_sweep(earlier, rows, cols)
            run.native_evals += 1
            run.native_distinct.add(("crash", earlier, rows, cols))
            rows_.append({"earlier_runs": earlier, "shape": f"{rows}x{cols}", "violating_crash_points": len(bad)})
            if bad:
                run._report_violation(f"crash[earlier={earlier},shape={rows}x{cols}]/atomic.every_crash_point", SS.sc_save_json,
                                      {"file_exists": earlier > 0, "rows": rows, "cols": cols}, {"earlier": earlier}, True,
                                      detail={"layer": "fault-injection on the real function", "witnesses": bad[:3]})
    # kill points that do not depend on which API the routine uses (profile hook on every C-level file-system verb), and
    # the history "a large save is killed, a small one follows"
    for earlier, rows, cols in ([(1, 2, 2)] if run.tier == "quick" else [(0, 1, 1), (1, 2, 2), (2, 4, 3)]):
        for nm, fn in (("profile_sweep", crash.profile_sweep), ("crash_then_save", crash.crash_then_save)):
            bad = fn(earlier, rows, cols)
            run.native_evals += 1
            run.native_distinct.add((nm, earlier, rows, cols))
            rows_.append({"harness": nm, "earlier_runs": earlier, "shape": f"{rows}x{cols}", "violating_crash_points": len(bad)})
            if bad:
                run._report_violation(f"{nm}[earlier={earlier},shape={rows}x{cols}]/atomic.every_crash_point", SS.sc_save_json,
                                      {"file_exists": earlier > 0, "rows": rows, "cols": cols, "leftovers": nm == "crash_then_save"},
                                      {"earlier": earlier}, True,
                                      detail={"layer": "fault-injection on the real function", "witnesses": bad[:3]})
    # the results directory on another file system than the system temporary directory (a routine that stages its new
    # document in /tmp and moves it over is atomic only when both happen to share a file system)
    other = crash.other_filesystem_root()
    if other is not None:
        bad = crash.profile_sweep(1, 2, 2, root=other)
        run.native_evals += 1
        run.native_distinct.add(("profile_sweep.other_fs", other))
        rows_.append({"harness": "profile_sweep", "results_directory_on": other, "violating_crash_points": len(bad)})
        if bad:
            run._report_violation("profile_sweep.other_file_system[earlier=1,shape=2x2]/atomic.every_crash_point", SS.sc_save_json,
                                  {"file_exists": True, "rows": 2, "cols": 2}, {"earlier": 1, "results_directory_on": other}, True,
                                  detail={"layer": "fault-injection on the real function", "witnesses": bad[:3]})
    else:
        rows_.append({"harness": "profile_sweep", "results_directory_on": None, "note": "no second file system on this machine"})
    run.bounded.append({"label": "crash injection on the real save_json (every write/close/replace call fails once)", "rows": rows_,
                        "bound": "hard kill (fork + os._exit, with and without flushing user-space buffers) at every effect point; file histories with 0/2 (0..5) earlier runs x result shapes incl. one larger than the 8 KiB write buffer (thorough); byte comparison with old/new file"})
    return run.finish(
        explanation="The real save_json executed over an abstract file system with an effect trace, for an ARBITRARY earlier mapping "
                    "(membership of the saved name symbolic): after every prefix of the trace the results file is exactly the old "
                    "document or a complete new one - i.e. the only effect on data.json is one atomic replace. Crash points inside "
                    "json.dump are covered by the file contract (content is an arbitrary prefix between open('w') and close). "
                    "Replay/bounded: real files with the k-th write/close/replace failing, for every k.")
