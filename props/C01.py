"""C01  Superadditive bounds always contain the true game."""
from __future__ import annotations

from props import scenarios as S
from rt import gen
from spec.sets import minimal

LEVEL = "proof"
COMPUTERS = ("superadditive", "superadditive_cached")


def ns(run):
    return (2, 3, 4, 5, 6)


def contract_functions(run, pkg):
    run.under_contract(pkg, "bounds", ["compute_bounds_superadditive", "compute_bounds_superadditive_cached",
                                       "_get_sub_super_coalition_structure"])
    run.under_contract(pkg, "game", ["IncompleteCooperativeGame.compute_bounds",
                                     "IncompleteCooperativeGame.reveal_value",
                                     "IncompleteCooperativeGame.unreveal_value",
                                     "IncompleteCooperativeGame.set_known_values"])
    run.inlined.update(["game.IncompleteCooperativeGame (real class, contract proved in C17)",
                        "coalitions.get_sub_coalitions/get_super_coalitions/all_coalitions (concrete for fixed n; C18)",
                        "coalition_ids.* (concrete for fixed n; C18)", "functoolz.powerset (concrete; C18)"])


def bounded_inputs(run, n, count):
    for i in range(count):
        kind = ("int", "dyadic", "float")[i % 3]
        v = gen.superadditive_game(run.rng, n, kind=kind, negative=(i % 2 == 1))
        K = gen.knowledge(run.rng, n)
        yield gen.game_inputs(v, K, n, rng=run.rng)


def exact_inputs(run, n, count):
    """Exactly representable games at several binary scales (integers and eighths times 2^k): every sum, difference,
    maximum and minimum the computers take is then exact in float64, so the comparison is made with tolerance ZERO."""
    for i in range(count):
        v = gen.superadditive_game(run.rng, n, kind=("int", "dyadic")[i % 2], negative=(i % 4 >= 2))
        sc = 2.0 ** (-40, -36, -33, -20, 0, 24)[i % 6]
        K = gen.knowledge(run.rng, n)
        d = gen.game_inputs([x * sc for x in v], K, n, rng=run.rng)
        for k in list(d):
            if k.startswith("slo") or k.startswith("sup"):
                d[k] = d[k] * sc
        yield d


def history_check(run, n, steps, computer):
    """Bounded: random reveal / un-reveal / bulk-reset / recompute histories on the real class."""
    from pyvc.mode import native_pkg
    P = native_pkg()
    game_m, bounds, co = P.mod("game"), P.mod("bounds"), P.mod("coalitions")
    rng = run.rng
    kind = rng.choice(["int", "dyadic"])
    v = gen.superadditive_game(rng, n, kind=kind, negative=rng.random() < 0.5)
    sc = 2.0 ** rng.choice([-40, -36, -20, 0, 0, 24])          # exactly representable at every scale
    v = [x * sc for x in v]
    g = game_m.IncompleteCooperativeGame(n, bounds.BOUNDS[computer])
    mini = minimal(n)
    g.set_known_values([v[c] for c in mini], [co.Coalition(c) for c in mini])
    known = set(mini)
    hist = []
    for _ in range(steps):
        op = rng.choice(["reveal", "reveal", "unreveal", "reset", "compute"])
        unknown = [c for c in range(1 << n) if c not in known]
        extra = [c for c in known if c not in mini]
        if op == "reveal" and unknown:
            c = rng.choice(unknown)
            g.reveal_value(v[c], co.Coalition(c))
            known.add(c)
        elif op == "unreveal" and extra:
            c = rng.choice(extra)
            g.unreveal_value(co.Coalition(c))
            known.discard(c)
        elif op == "reset":
            kp = sorted(gen.knowledge(rng, n))
            g.set_known_values([v[c] for c in kp], [co.Coalition(c) for c in kp])
            known = set(kp)
            c = None
        else:
            op, c = "compute", None
        hist.append((op, c))
        if op != "compute" and rng.random() < 0.5:
            continue                      # several operations between two recomputes
        g.compute_bounds()
        lo, up = g.get_lower_bounds(), g.get_upper_bounds()
        for c2 in range(1 << n):
            exact = (lo[c2] <= v[c2] <= up[c2]) and (c2 not in known or lo[c2] == up[c2] == v[c2])
            if not exact:
                return {"v": v, "history": hist, "coalition": c2, "lo": float(lo[c2]), "up": float(up[c2]),
                        "computer": computer, "n": n}
    return None


def main(run):
    pkg = run.package()
    contract_functions(run, pkg)
    for n in ns(run):
        for comp in COMPUTERS:
            cnt = 30 if run.tier == "quick" else 200
            run.prove(f"{comp}[n={n}]", S.sc_sa_bounds, {"n": n, "computer": comp, "functional": False,
                                                        "canary": (n == 3)},
                      fallback=(lambda n=n, comp=comp: run.bounded_run(
                          f"fallback.{comp}[n={n}]", S.sc_sa_bounds, {"n": n, "computer": comp, "functional": False},
                          bounded_inputs(run, n, 200), bound=f"200 seeded (game, K, stale) triples at n={n}")))
        if n >= 3:
            ops = [("compute", 0, ())]
            non_min = [c for c in range(1 << n) if c not in minimal(n)]
            picks = non_min if n <= 3 else run.rng.sample(non_min, 3)
            for s in picks:
                ops += [("reveal", s, ()), ("unreveal", s, ())]
            for _ in range(2):
                ops.append(("reset", 0, tuple(sorted(run.rng.sample(non_min, run.rng.randint(0, len(non_min)))))))
            for op, s, kp in ops:
                pp = {"n": n, "op": op, "s": s, "kprime": list(kp)}
                run.prove(f"agree.{op}[n={n},s={s},k'={len(kp)}]", S.sc_agree_preserved, pp,
                          fallback=(lambda n=n, pp=pp: run.bounded_run(f"fallback.agree[{pp['op']},n={n},s={pp['s']}]", S.sc_agree_preserved, pp,
                                                                     bounded_inputs(run, n, 60), bound="60 seeded (game, K, stale) triples")))
    # whole histories with several operations between two recomputes (memoised / skipped recomputation shows only here)
    for comp in COMPUTERS:
        for ops in ([["c"], ["r", 3], ["u", 3], ["c"]], [["r", 5], ["c"], ["r", 3], ["u", 5], ["u", 3], ["c"]],
                    [["c"], ["r", 6], ["r", 3], ["c"], ["u", 6], ["r", 5], ["c"]], [["c"], ["x", [3, 5]], ["c"], ["u", 3], ["x", [6]], ["c"]]):
            tag = "".join(o[0] + (str(o[1]) if len(o) > 1 and not isinstance(o[1], list) else "") for o in ops)
            run.prove(f"history.{comp}[n=3,{tag}]", S.sc_bounds_history, {"n": 3, "computer": comp, "ops": ops})
        ops4 = [["c"], ["r", 7], ["r", 12], ["u", 7], ["u", 12], ["c"], ["r", 3], ["c"], ["u", 3], ["r", 5], ["u", 5], ["c"]]
        run.prove(f"history.{comp}[n=4,long]", S.sc_bounds_history, {"n": 4, "computer": comp, "ops": ops4})
    run.discharge()
    # bounded float/dyadic clause on the real package
    rng_ns = (2, 3, 4, 5, 6) if run.tier == "quick" else (2, 3, 4, 5, 6, 7, 8)
    for n in rng_ns:
        cnt = (20 if n <= 5 else 6) if run.tier == "quick" else (150 if n <= 6 else 10)
        for comp in COMPUTERS:
            if comp == "superadditive" and n >= 7:
                continue
            run.bounded_run(f"float.{comp}[n={n}]", S.sc_sa_bounds, {"n": n, "computer": comp, "functional": False},
                            bounded_inputs(run, n, cnt), tol=1e-9,
                            bound=f"{cnt} seeded superadditive games (int/dyadic/float, negative singletons) x random K x stale rows")
            if n <= 6:
                run.bounded_run(f"exact.{comp}[n={n}]", S.sc_sa_bounds, {"n": n, "computer": comp, "functional": False},
                                exact_inputs(run, n, cnt), tol=0.0,
                                bound=f"{cnt} exactly representable games (integers / eighths x 2^k, k in -40..24) x random K: tolerance 0")
    fails = 0
    hcount = 0
    for n in (3, 4, 5):
        for comp in COMPUTERS:
            for _ in range(6 if run.tier == "quick" else 40):
                hcount += 1
                w = history_check(run, n, 25, comp)
                run.native_evals += 1
                run.native_distinct.add(("hist", hcount))
                if w:
                    fails += 1
                    run._report_violation(f"history.{comp}[n={n}]/contains", S.sc_sa_bounds, {"n": n, "computer": comp},
                                          w, True, detail={"layer": "bounded-history", "witness": w})
                    break
    run.bounded.append({"label": "histories", "evaluations": hcount, "failures": fails,
                        "bound": "random reveal/unreveal/reset/compute histories of 25 operations, exact (int/dyadic) games, n=3..5"})
    return run.finish(
        explanation="Containment/ordering/exactness postconditions of both superadditive computers proved for every "
                    "real-valued superadditive game, every knowledge set (symbolic known-flags) and arbitrary stale rows, "
                    f"per player count n in {list(ns(run))}; histories by the Agree invariant (one inductive step per operation); "
                    "float clause and long histories bounded on the real package.")
