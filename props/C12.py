"""C12  evaluate() records true trajectories; results independent of parallelism."""
from __future__ import annotations

from props import env_scenarios as E

LEVEL = "other"


def native_parallel(run, solver_key, gen_key, reps, limit, procs_list, n=4):
    """Bounded - the only route to the schedule clause: real Pool, fixed seed; matrices must be equal for every process
    count, every column must replay natively on its own hidden game, and with a continuous-valued generator distinct
    repetitions must see pairwise different hidden games."""
    import numpy as np
    from pyvc.mode import native_pkg
    P = native_pkg()
    model, solvers, ev, game_m, bounds, co = (P.mod("run.model"), P.mod("solvers"), P.mod("evaluation"), P.mod("game"),
                                              P.mod("bounds"), P.mod("coalitions"))
    from spec.sets import minimal
    seed = 1000 + run.seed
    out = {}
    for p in procs_list:
        inst = model.ModelInstance(number_of_players=n, game_class="superadditive_cached", game_generator=gen_key,
                                   run_steps_limit=limit, seed=seed, parallel_environments=p)
        solver = solvers.SOLVERS[solver_key](inst)
        E_, A_ = ev.evaluate(solver.next_step, inst.get_env, reps, limit, inst.gap_function_callable, p, solver.after_reset)
        out[p] = (E_, A_)
    problems = []
    base = out[procs_list[0]]
    for p in procs_list[1:]:
        if not (np.array_equal(base[0], out[p][0]) and np.array_equal(base[1], out[p][1])):
            problems.append({"what": "result depends on the number of worker processes", "processes": [procs_list[0], p]})
            break
    for p in procs_list:
        E_, A_ = out[p]
        # distinct repetitions must not be replays of one another (continuous generator: equal columns = same hidden game)
        cols = {tuple(np.round(E_[:, j], 12)) + tuple(A_[:, j]) for j in range(reps)}
        if len(cols) < reps and p > 1:
            problems.append({"what": "repetitions are replays of one another", "processes": p, "distinct_columns": len(cols), "repetitions": reps})
            break
        for j in range(reps):
            acts = [int(a) for a in A_[:, j]]
            if len(set(acts)) != len(acts) or any(a in minimal(n) for a in acts):
                problems.append({"what": "actions not distinct/explorable", "processes": p, "column": j})
    return problems


def main(run):
    pkg = E.solver_package()
    run.pkg = pkg
    run.under_contract(pkg, "evaluation", ["eval_one", "evaluate"])
    run.under_contract(pkg, "run.solve", ["solve_func"])
    run.inlined.update(["icg_gym.ICG_Gym (real class; C09)"])
    run.stubs_used.update(["solver stub: SOME valid action (the contract C13 proves for every registered solver; every choice explored)",
                           "SpecGenerator"])
    quick = run.tier == "quick"
    for limit in (0, 1, 3, 4):
        run.prove(f"eval_one[n=3,limit={limit}]", E.sc_eval_one, {"n": 3, "limit": limit}, pkg=pkg)
    run.prove("eval_one[n=3,limit=3,budget=2,l1]", E.sc_eval_one, {"n": 3, "limit": 3, "budget": 2, "gap": "l1_norm"}, pkg=pkg)
    run.prove("eval_one[n=3,limit=2,uncached,linf]", E.sc_eval_one, {"n": 3, "limit": 2, "computer": "superadditive", "gap": "linf_norm"}, pkg=pkg)
    run.prove_parallel("eval_one[n=4,limit=2]", E.sc_eval_one, {"n": 4, "limit": 2, "gap": "l1_norm"}, pkg=pkg)
    run.prove_parallel("evaluate[n=3,limit=2,reps=2]", E.sc_evaluate, {"n": 3, "limit": 2, "repetitions": 2}, pkg=pkg)
    # both result matrices in every square / non-square shape: (limit+1) x reps and limit x reps
    run.prove_parallel("evaluate[n=3,limit=1,reps=2]", E.sc_evaluate, {"n": 3, "limit": 1, "repetitions": 2}, pkg=pkg)
    run.prove_parallel("evaluate[n=3,limit=1,reps=1]", E.sc_evaluate, {"n": 3, "limit": 1, "repetitions": 1}, pkg=pkg)
    if not quick:
        run.prove_parallel("evaluate[n=3,limit=2,reps=3]", E.sc_evaluate, {"n": 3, "limit": 2, "repetitions": 3}, pkg=pkg)
        run.prove_parallel("evaluate[n=3,limit=3,reps=2]", E.sc_evaluate, {"n": 3, "limit": 3, "repetitions": 2}, pkg=pkg)
        run.prove_parallel("eval_one[n=4,limit=3]", E.sc_eval_one, {"n": 4, "limit": 3}, pkg=pkg)
    run.discharge()
    rows = []
    cfgs = [("largest", "noisy_factory", 6, 2), ("greedy", "graph", 8, 2)] if quick else \
        [("largest", "noisy_factory", 12, 3), ("greedy", "graph", 8, 2), ("random", "noisy_factory", 12, 3), ("greedy_worst", "xos", 6, 2),
         ("random", "factory", 24, 2)]
    for solver, gk, reps, limit in cfgs:
        probs = native_parallel(run, solver, gk, reps, limit, (1, 2, 3) if quick else (1, 2, 3, 4, 8, 16))
        run.native_evals += 1
        run.native_distinct.add(("par", solver, gk, reps))
        rows.append({"solver": solver, "generator": gk, "repetitions": reps, "limit": limit, "problems": probs})
        for pr in probs:
            sig = "pool-rng-replay" if pr["what"] in ("result depends on the number of worker processes", "repetitions are replays of one another") else "other"
            run._report_violation(f"parallel[{solver},{gk},reps={reps}]/{'independent_of_processes' if sig == 'pool-rng-replay' else 'trajectory'}",
                                  E.sc_evaluate, {"n": 4, "limit": limit, "repetitions": reps}, dict(pr, signature=sig, generator=gk, solver=solver), True,
                                  detail={"layer": "bounded (real multiprocessing.Pool)"})
    run.bounded.append({"label": "real Pool: evaluate() for process counts 1,2,3 (..16 thorough)", "rows": rows,
                        "bound": "fixed seed, several solvers x generators x repetition counts"})
    return run.finish(
        explanation="eval_one proved, for a symbolic hidden game and EVERY valid policy (each choice explored): row 0 is the gap at the "
                    "minimal information, row t+1 the gap after the t-th chosen coalition, the action row holds the ids actually "
                    "revealed (distinct, explorable), zero padding after done; evaluate(processes=1): column j is the trajectory of the "
                    "j-th environment with its own hidden game. The schedule clause (equality across worker counts, repetitions not "
                    "replays of one another) is outside any contract in reach (pickling, chunking, shared RNG state) and is decided "
                    "only by bounded runs of the real pool - where the listed finding C12-pool-rng-replay shows. Statistical "
                    "independence is not decidable here; only 'not replays of one another'.")
