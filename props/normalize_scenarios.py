"""C15: normalisation."""
from __future__ import annotations

from props.scenarios import G, complete_game, declare_game, scenario
from spec.sets import splits


def accepted_superadditive(M, n, v, rtol=1e-9):
    """The library's own acceptance test (is_superadditive with its default tolerance)."""
    out = []
    for u in range(1, 1 << n):
        for s, t in splits(u):
            lhs = v[s] + v[t]
            out.append(M.or_(lhs <= v[u], M.abs_(lhs - v[u]) <= M.const(rtol) * M.abs_(v[u])))
    return out


@scenario
def sc_normalize_icg(M, n, region="exact"):
    """normalize_game on a value table.  Region 'exact': superadditive(v) in the textbook sense; region 'accepted':
    only the library's tolerance test holds.  ensures: norm info = (surplus, singleton values); every singleton 0;
    surplus != 0 => all values in [0,1] and grand coalition 1; surplus == 0 => identically 0; result superadditive;
    result = normalised(v); denormalize(result, info) = v."""
    nm = M.mod("normalize")
    v = declare_game(M, n)
    conds = G.superadditive(n, v) if region == "exact" else accepted_superadditive(M, n, v)
    for c in conds:
        M.assume(c)
    g = complete_game(M, n, v)
    info = nm.normalize_game(g)
    nv = [M.val(x) for x in g.get_values()]
    spec, surplus = G.normalised(M, n, v)
    full = (1 << n) - 1
    M.check("norminfo.surplus", M.val(info[0]) == surplus)
    for i in range(n):
        M.check(f"norminfo.singleton[{i}]", M.val(info[1][i]) == v[1 << i])
        M.check(f"singleton_zero[{i}]", nv[1 << i] == 0)
    for c in range(1 << n):
        M.check(f"is_normalised_spec[{c}]", nv[c] == spec[c])
        M.check(f"range[{c}]", M.and_(0 <= nv[c], nv[c] <= 1))
        M.check(f"additive_gives_zero[{c}]", M.implies(surplus == 0, nv[c] == 0))
    M.check("grand_is_one", M.implies(M.not_(surplus == 0), nv[full] == 1))
    for j, cond in enumerate(G.superadditive(n, nv)):
        M.check(f"still_superadditive[{j}]", cond)
    kn = [M.val(x) for x in g.are_values_known()]
    M.check("all_still_known", M.and_(*kn))
    nm.denormalize_game(g, info)
    back = [M.val(x) for x in g.get_values()]
    for c in range(1 << n):
        M.check(f"roundtrip[{c}]", back[c] == v[c])


@scenario
def sc_normalize_graph(M, n):
    """A graph game (symbolic non-negative weights) and its tabulated form normalise to the same values; graph
    normalisation divides the polished weight matrix by the grand coalition's value; round trip."""
    nm = M.mod("normalize")
    gg = M.mod("graph_game")
    np_ = gg.np
    w = {}
    mat = np_.zeros((n, n), np_.float64)
    for i in range(n):
        for j in range(n):
            w[i, j] = M.real(f"w{i}_{j}")
            M.assume(w[i, j] >= 0)
            mat[i, j] = w[i, j]
    graph = gg.GraphCooperativeGame(mat)
    spec_v = []
    for c in range(1 << n):
        ms = [i for i in range(n) if c >> i & 1]
        spec_v.append(M.sum_([w[i, j] for i in ms for j in ms if i < j]))
    gv = [M.val(x) for x in graph.get_values()]
    for c in range(1 << n):
        M.check(f"graph.value_is_edge_sum[{c}]", gv[c] == spec_v[c])
    for j, cond in enumerate(G.superadditive(n, gv)):
        M.check(f"graph.superadditive[{j}]", cond)
    table = complete_game(M, n, gv)
    original = graph.copy()
    info_g = nm.normalize_game(graph)
    info_t = nm.normalize_game(table)
    ng = [M.val(x) for x in graph.get_values()]
    nt = [M.val(x) for x in table.get_values()]
    M.check("same_surplus", M.val(info_g[0]) == M.val(info_t[0]))
    for c in range(1 << n):
        M.check(f"same_normalised_values[{c}]", ng[c] == nt[c])
        M.check(f"graph.range[{c}]", M.and_(0 <= ng[c], ng[c] <= 1))
    nm.denormalize_game(graph, info_g)
    back = [M.val(x) for x in graph.get_values()]
    for c in range(1 << n):
        M.check(f"graph.roundtrip[{c}]", back[c] == spec_v[c])
