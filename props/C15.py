"""C15  Normalisation maps superadditive games into [0,1] and is invertible."""
from __future__ import annotations

from props import normalize_scenarios as NS
from rt import gen

LEVEL = "proof"


def exact_inputs(run, n, count):
    for i in range(count):
        v = gen.superadditive_game(run.rng, n, kind=("int", "dyadic")[i % 2], negative=(i % 3 == 0))
        if i % 7 == 6:      # exactly additive
            a = [float(run.rng.randint(-3, 5)) for _ in range(n)]
            v = [sum(a[j] for j in range(n) if c >> j & 1) for c in range(1 << n)]
        yield {f"v{c}": v[c] for c in range(1, 1 << n)}


def family_check(run, n, seeds, keys=None):
    """Bounded: every registered generator family on the real package: range, singletons, grand coalition, superadditivity
    of the result, graph vs table, round trip (1e-9)."""
    import numpy as np
    from pyvc.mode import native_pkg
    P = native_pkg()
    gens, nm, game_m, gp, gg = (P.mod("generators").GENERATORS, P.mod("normalize"), P.mod("game"), P.mod("game_properties"),
                                P.mod("graph_game"))
    evals = fails = 0
    for key in sorted(gens):
        if key == "convex" or (keys and key not in keys):
            continue
        for seed in seeds:
            try:
                game = gens[key](n, np.random.default_rng(seed))
            except Exception:
                continue            # generator failures are C10's business
            vals = np.array(game.get_values(), dtype=float)
            evals += 1
            h = game.copy()
            info = nm.normalize_game(h)
            nv = np.array(h.get_values(), dtype=float)
            scale = max(1.0, float(np.abs(vals).max()))
            surplus = float(info[0])
            problems = []
            if nv.min() < -1e-9 or nv.max() > 1 + 1e-9:
                problems.append("range")
            if any(abs(nv[1 << i]) > 1e-9 for i in range(n)):
                problems.append("singleton_zero")
            if abs(surplus) > 1e-12 * scale and abs(nv[-1] - 1) > 1e-9:
                problems.append("grand_is_one")
            t = game_m.IncompleteCooperativeGame(n)
            t.set_values(nv)
            if not gp.is_superadditive(t, rtol=1e-6, atol=1e-9):
                problems.append("still_superadditive")
            if isinstance(game, gg.GraphCooperativeGame):
                tab = game_m.IncompleteCooperativeGame(n)
                tab.set_values(vals.copy())
                nm.normalize_game(tab)
                if not np.allclose(tab.get_values(), nv, rtol=1e-9, atol=1e-12):
                    problems.append("same_normalised_values")
            nm.denormalize_game(h, info)
            if not np.allclose(h.get_values(), vals, rtol=1e-9, atol=1e-9 * scale):
                problems.append("roundtrip")
            if problems:
                fails += 1
                inp = {f"v{c}": float(vals[c]) for c in range(1, 1 << n)}
                run._report_violation(f"family[{key},n={n}]/{problems[0]}", NS.sc_normalize_icg, {"n": n, "region": "accepted"}, inp, True,
                                      detail={"layer": "bounded", "generator": key, "seed": seed, "problems": problems,
                                              "surplus": surplus, "min": float(nv.min()), "max": float(nv.max())})
    run.native_evals += evals
    run.native_distinct.update(("fam", n, j) for j in range(evals))
    return evals, fails


def main(run):
    pkg = run.package()
    run.under_contract(pkg, "normalize", ["_get_norminfo", "normalize_game", "_normalize_icg", "_normalize_graph_game",
                                          "denormalize_game", "_denormalize_graph_game"])
    run.under_contract(pkg, "graph_game", ["GraphCooperativeGame.__init__", "GraphCooperativeGame.get_value",
                                           "GraphCooperativeGame.get_values", "GraphCooperativeGame.copy", "_polish_graph_matrix"])
    quick = run.tier == "quick"
    for n in ((2, 3, 4) if quick else (2, 3, 4, 5)):
        run.prove(f"R1.table[n={n}]", NS.sc_normalize_icg, {"n": n, "region": "exact"},
                  fallback=(lambda n=n: run.bounded_run(f"fallback.table[n={n}]", NS.sc_normalize_icg, {"n": n, "region": "exact"},
                                                        exact_inputs(run, n, 200), bound="200 seeded exact games")))
        if n <= 4:
            run.prove(f"R1.graph[n={n}]", NS.sc_normalize_graph, {"n": n})
    # region R2 (accepted only through the tolerance): refutable -> the listed finding
    run.prove("R2.accepted[n=3]", NS.sc_normalize_icg, {"n": 3, "region": "accepted"})
    run.discharge()
    for n in (2, 3, 4, 5, 6):
        run.bounded_run(f"exact.table[n={n}]", NS.sc_normalize_icg, {"n": n, "region": "exact"},
                        exact_inputs(run, n, 10 if quick else 80), tol=1e-9, bound="seeded integer/dyadic superadditive games incl. additive ones")
    # beyond one byte of coalition ids (vectorised popcount / unpackbits slips show only for n >= 9)
    for n in ((9,) if quick else (9, 10)):
        run.bounded_run(f"exact.table[n={n}]", NS.sc_normalize_icg, {"n": n, "region": "exact"},
                        exact_inputs(run, n, 2), tol=1e-9, bound="2 seeded integer/dyadic superadditive games beyond 8 players")
    rows = []
    for n in ((3, 4) if quick else (3, 4, 5, 6)):
        seeds = range(run.seed, run.seed + (4 if quick else 25))
        e, f = family_check(run, n, seeds)
        rows.append({"n": n, "evaluations": e, "outside_contract": f})
    # the listed witnesses are reproduced each run while they still fail
    e, f = family_check(run, 3, range(0, 40), keys={"oxs", "xos2", "xos3"})
    rows.append({"n": 3, "families": "oxs/xos2/xos3 witnesses", "evaluations": e, "outside_contract": f})
    run.bounded.append({"label": "generator families on the real package", "rows": rows,
                        "bound": "every registry key except 'convex', seeded; float tolerance 1e-9"})
    return run.finish(
        explanation="Region R1 (textbook-superadditive games): normalisation proved to return the spec normalised(v), singletons 0, "
                    "values in [0,1], grand coalition 1 (identically 0 when additive), superadditive result, exact round trip, "
                    "graph game = tabulated form, for every real-valued game per n (QF_NRA: division by the symbolic surplus). "
                    "Region R2 (accepted only through the library's 1e-9 tolerance / float residue): refutable - the listed "
                    "known finding C15-near-additive.")
