"""C18: coalitions as finite sets (bit-vector proofs for the scalar operations), predicates vs definitions."""
from __future__ import annotations

from props.scenarios import G, complete_game, declare_game, scenario
from pyvc.bv import bit, bit_dyn, popcount_spec
from spec.sets import proper_nonempty_subsets, splits, subsets


def _ident(M, x):
    return x.id if hasattr(x, "id") else x


@scenario
def sc_coalition_ops(M, W):
    """Set semantics of the scalar Coalition operations for ALL pairs of W-bit coalitions and all players < W:
    element i is in the result iff the set-theoretic definition says so."""
    co = M.mod("coalitions")
    a, b = M.bv("a", W), M.bv("b", W)
    p = M.bv("p", W)
    M.assume(p < W)
    A, B = co.Coalition(a), co.Coalition(b)
    inter, union, diff = (A & B).id, (A | B).id, (A - B).id
    for i in range(W):
        M.check(f"and[{i}]", M.iff(bit(inter, i), M.and_(bit(a, i), bit(b, i))))
        M.check(f"or[{i}]", M.iff(bit(union, i), M.or_(bit(a, i), bit(b, i))))
        M.check(f"sub[{i}]", M.iff(bit(diff, i), M.and_(bit(a, i), M.not_(bit(b, i)))))
    M.check("contains.coalition", M.iff(M.val(B in A), M.and_(*[M.implies(bit(b, i), bit(a, i)) for i in range(W)])))
    M.check("contains.player", M.iff(M.val(p in A), bit_dyn(a, p, W)))
    M.check("eq", M.iff(M.val(A == B), M.and_(*[M.iff(bit(a, i), bit(b, i)) for i in range(W)])))
    M.check("disjoint", M.iff(M.val(co.disjoint_coalitions(A, B)), M.and_(*[M.not_(M.and_(bit(a, i), bit(b, i))) for i in range(W)])))
    minus_p, plus_p, and_p, or_p = (A - p).id, (A + p).id, (A & p).id, (A | p).id
    single = co.player_to_coalition(p).id
    for i in range(W):
        is_p = (p == i)
        M.check(f"sub_player[{i}]", M.iff(bit(minus_p, i), M.and_(bit(a, i), M.not_(is_p))))
        M.check(f"add_player[{i}]", M.iff(bit(plus_p, i), M.or_(bit(a, i), is_p)))
        M.check(f"and_player[{i}]", M.iff(bit(and_p, i), M.and_(bit(a, i), is_p)))
        M.check(f"or_player[{i}]", M.iff(bit(or_p, i), M.or_(bit(a, i), is_p)))
        M.check(f"player_to_coalition[{i}]", M.iff(bit(single, i), is_p))
    M.check("exclude_coalition", M.iff(M.nonempty(co.exclude_coalition(B, [A])), M.and_(*[M.not_(M.and_(bit(a, i), bit(b, i))) for i in range(W)])))


@scenario
def sc_coalition_len(M, W):
    """Coalition.__len__ = number of elements (popcount defined elementwise)."""
    co = M.mod("coalitions")
    a = M.bv("a", W)
    r = co.Coalition.__len__(co.Coalition(a))
    M.check("len.is_popcount", r == popcount_spec(a, W))


@scenario
def sc_coalition_n(M, W, n):
    """inverted / grand_coalition for a concrete player count n <= W and every coalition below 2^n."""
    co = M.mod("coalitions")
    a = M.bv("a", W)
    M.assume(a < (1 << n))
    inv = co.Coalition(a).inverted(n).id
    grand = co.grand_coalition(n).id
    for i in range(W):
        M.check(f"inverted[{i}]", M.iff(bit(inv, i), M.and_(i < n, M.not_(bit(a, i)))))
        M.check(f"grand[{i}]", M.iff(bit(grand, i), i < n))


@scenario
def lem_id_tricks(M, W):
    """Why the id-array code may use arithmetic on ids (bit-vector lemmas over all W-bit ids):
    x|c==c <=> x subset c;  x subset c => x <= c (range restriction of sub_coalitions);  s subset u => u-s = u&~s
    (is_superadditive subtracts ids);  A strict subset of S => popcount(A) < popcount(S) (size order is a valid
    processing order);  (full^c)|x ranges over supersets;  c ^ s = c & ~s for s subset c (complement by xor)."""
    x, c = M.bv("x", W), M.bv("c", W)
    sub = M.and_(*[M.implies(bit(x, i), bit(c, i)) for i in range(W)])
    M.check("or_test_is_subset", M.iff((x | c) == c, sub))
    M.check("subset_is_below", M.implies(sub, x <= c))
    M.check("minus_is_setminus", M.implies(sub, (c - x) == (c & ~x)))
    M.check("xor_is_setminus", M.implies(sub, (c ^ x) == (c & ~x)))
    M.check("strict_subset_smaller", M.implies(M.and_(sub, x != c), popcount_spec(x, W) < popcount_spec(c, W)))
    M.check("superset_by_or", M.and_(*[M.implies(bit(c, i), bit(x | c, i)) for i in range(W)]))


# -- predicates ---------------------------------------------------------------------------------

def _isclose(M, a, b, rtol, atol):
    return M.abs_(a - b) <= M.const(atol) + M.const(rtol) * M.abs_(b)


@scenario
def sc_pred_superadditive(M, n, rtol=1e-9, atol=0):
    """is_superadditive(game, rtol, atol) <=> for all U and splits S+T=U: v(S)+v(T) <= v(U) or isclose (documented
    tolerance); with rtol = atol = 0 exactly the textbook definition.  Requires v(empty) = 0."""
    gp = M.mod("game_properties")
    v = declare_game(M, n)
    g = complete_game(M, n, v)
    r = M.val(gp.is_superadditive(g, rtol=rtol, atol=atol))
    conds = []
    for u in range(1, 1 << n):
        for s, t in splits(u):
            lhs = v[s] + v[t]
            conds.append(M.or_(lhs <= v[u], _isclose(M, lhs, v[u], rtol, atol)))
    M.check("is_superadditive.iff_definition", M.iff(r, M.and_(*conds)))
    if rtol == 0 and atol == 0:
        M.check("is_superadditive.iff_textbook", M.iff(r, M.and_(*G.superadditive(n, v))))


@scenario
def sc_pred_monotone(M, n):
    gp = M.mod("game_properties")
    v = declare_game(M, n)
    g = complete_game(M, n, v)
    r = M.val(gp.is_monotone_decreasing(g))
    allpairs = [v[s] >= v[u] for u in range(1 << n) for s in subsets(u)]
    M.check("is_monotone_decreasing.iff_definition", M.iff(r, M.and_(*allpairs)))
    M.check("is_monotone_decreasing.iff_generated", M.iff(r, M.and_(*G.monotone_nonincreasing(n, v))))
    sam = M.val(gp.is_sam(g))
    conds = []
    for u in range(1, 1 << n):
        for s, t in splits(u):
            conds.append(M.or_(v[s] + v[t] <= v[u], _isclose(M, v[s] + v[t], v[u], 1e-9, 0)))
    M.check("is_sam.iff_both", M.iff(sam, M.and_(*(conds + allpairs))))


@scenario
def sc_pred_supermodular(M, n, tol=1e-10):
    """check_supermodularity returns None iff v(S+i)-v(S) <= v(T+i)-v(T)+tol for all S subset T, i not in T;
    otherwise a genuinely violating triple."""
    sm = M.mod("supermodularity_check")
    v = declare_game(M, n)
    g = complete_game(M, n, v)
    r = sm.check_supermodularity(g, tol)
    conds = []
    for t in range(1 << n):
        for i in range(n):
            if t >> i & 1:
                continue
            for s in subsets(t):
                if s == t:
                    continue
                conds.append(v[s | 1 << i] - v[s] <= v[t | 1 << i] - v[t] + M.const(tol))
    if r is None:
        M.check("supermodular.none_only_if_supermodular", M.and_(*conds))
    else:
        T, S, i = r
        t, s = T.id, S.id
        M.check("supermodular.witness_is_wellformed", (s & t) == s and s != t and not (t >> i & 1))
        M.check("supermodular.witness_violates", v[s | 1 << i] - v[s] > v[t | 1 << i] - v[t] + M.const(tol))
