"""C03  Cached and reference superadditive bound computers are interchangeable."""
from __future__ import annotations

import itertools

from props import scenarios as S
from props.C01 import bounded_inputs, contract_functions
from rt import gen

LEVEL = "proof"


def memo_check(run, pkg, ns):
    """(3) memoisation: interleave player counts n1, n2, n1 in ONE loaded module instance; the third
    summary must equal the first term for term, and the cached arrays must not have been written."""
    import numpy as np
    from pyvc import core
    from pyvc.mode import SymMode
    bounds = pkg.mod("bounds")
    count = bad = 0
    for n1, n2 in itertools.permutations(ns, 2):
        def summary(n):
            res = core.explore(lambda: _table_terms(SymMode(pkg), n))
            if len(res) != 1 or res[0].kind != "ok":
                raise core.Unsupported("the computer does not run on a single path under the model")
            return res[0].value
        try:
            a = summary(n1)
            snap = [np.array(np.asarray(x), copy=True) for x in bounds._get_sub_super_coalition_structure(n1)]
            summary(n2)
            b = summary(n1)
            after = bounds._get_sub_super_coalition_structure(n1)
        except (core.Unsupported, core.Undecided) as e:
            run.engine_failures.append(("memo", f"{type(e).__name__}: {e}"))
            run.fallbacks["memo"] = lambda: native_memo_check(run, ns)
            return
        count += 1
        same_terms = all(x.z().eq(y.z()) for x, y in zip(a, b))
        same_cache = all(_arr_equal(x, y) for x, y in zip(snap, after))
        if not (same_terms and same_cache):
            bad += 1
            run._report_violation(f"memo[n1={n1},n2={n2}]/interleaving", S.sc_sa_equiv, {"n": n1},
                                  {"n1": n1, "n2": n2}, False,
                                  detail={"same_terms": same_terms, "cache_unmodified": same_cache})
    run.exhaustive.append({"label": "memoised structure under interleaved player counts", "pairs": count,
                           "failures": bad, "space": f"all ordered pairs (n1, n2) from {list(ns)}, run n1,n2,n1",
                           "exhaustive": True})
    run.native_evals += count
    run.native_distinct.update(("memo", i) for i in range(count))


def native_memo_check(run, ns):
    """Bounded stand-in for the memoisation clause: the real package, interleaved player counts and knowledge sets;
    the memoised arrays must not change and results must not depend on what was computed before."""
    import numpy as np
    from pyvc.mode import native_pkg
    from spec.sets import minimal
    P = native_pkg()
    game_m, bounds, co = P.mod("game"), P.mod("bounds"), P.mod("coalitions")
    ok = True
    for n1, n2 in itertools.permutations(ns, 2):
        snap = [np.array(x, copy=True) for x in bounds._get_sub_super_coalition_structure(n1)]
        for n in (n1, n2, n1):
            v = gen.superadditive_game(run.rng, n, kind="int")
            for K in (sorted(gen.knowledge(run.rng, n, p=0.2)), sorted(gen.knowledge(run.rng, n, p=0.7))):
                g = game_m.IncompleteCooperativeGame(n, bounds.BOUNDS["superadditive_cached"])
                g.set_known_values([v[c] for c in K], [co.Coalition(c) for c in K])
                g.compute_bounds()
        after = bounds._get_sub_super_coalition_structure(n1)
        if not all(np.array_equal(a, b) for a, b in zip(snap, after)):
            ok = False
            run._report_violation(f"memo.native[n1={n1},n2={n2}]/cache_unmodified", S.sc_sa_equiv, {"n": n1}, {"n1": n1, "n2": n2}, True,
                                  detail={"layer": "bounded", "kind": "the memoised coalition structure was modified in place"})
            break
    return ok


def _arr_equal(x, y):
    import numpy as np
    x, y = np.asarray(x), np.asarray(y)
    if x.shape != y.shape:
        return False
    if x.dtype == object or y.dtype == object:
        return all(bool(a == b) for a, b in zip(x.flat, y.flat))
    return bool(np.array_equal(x, y))


def _table_terms(M, n):
    v = S.declare_game(M, n)
    g, k = S.make_incomplete(M, n, "superadditive_cached", v)
    g.compute_bounds()
    kn, lo, up = S.table(M, g, n)
    return lo + up


def registry_check(run, pkg):
    """(4) the registry entries are the two functions under contract and ModelInstance.get_env passes
    BOUNDS[self.game_class] to the game."""
    bounds = pkg.mod("bounds")
    ok1 = bounds.BOUNDS["superadditive"] is bounds.compute_bounds_superadditive
    ok2 = bounds.BOUNDS["superadditive_cached"] is bounds.compute_bounds_superadditive_cached
    model = pkg.mod("run.model")
    seen = {}
    for cls in ("superadditive", "superadditive_cached"):
        inst = model.ModelInstance(number_of_players=3, game_class=cls, game_generator="factory_fixed")
        env = inst.get_env()
        seen[cls] = env.incomplete_game._bounds_computer is bounds.BOUNDS[cls]
    ok = ok1 and ok2 and all(seen.values())
    run.exhaustive.append({"label": "registry identity", "BOUNDS[superadditive]": ok1, "BOUNDS[superadditive_cached]": ok2,
                           "get_env passes BOUNDS[game_class]": seen, "exhaustive": True})
    run.native_evals += 4
    run.native_distinct.update(("reg", i) for i in range(4))
    if not ok:
        run._report_violation("registry/identity", S.sc_sa_equiv, {"n": 3}, {"ok1": ok1, "ok2": ok2, "seen": seen}, False,
                              detail={"kind": "registry does not map the class names to the functions under contract"})


def bit_identity(run, n, count):
    """Bounded: bit-identical tables on exactly representable games along random reveal orders."""
    import numpy as np
    from pyvc.mode import native_pkg
    from spec.sets import minimal
    P = native_pkg()
    game_m, bounds, co = P.mod("game"), P.mod("bounds"), P.mod("coalitions")
    fails = evals = 0
    for i in range(count):
        kind = ("int", "dyadic", "float")[i % 3]
        v = gen.superadditive_game(run.rng, n, kind=kind, negative=(i % 2 == 0))
        ga = game_m.IncompleteCooperativeGame(n, bounds.BOUNDS["superadditive"])
        gb = game_m.IncompleteCooperativeGame(n, bounds.BOUNDS["superadditive_cached"])
        mini = minimal(n)
        for g in (ga, gb):
            g.set_known_values([v[c] for c in mini], [co.Coalition(c) for c in mini])
        order = [c for c in range(1 << n) if c not in mini]
        run.rng.shuffle(order)
        for c in [None] + order[: (6 if n < 7 else 4) if n > 4 else len(order)]:
            if c is not None:
                ga.reveal_value(v[c], co.Coalition(c))
                gb.reveal_value(v[c], co.Coalition(c))
            ga.compute_bounds()
            gb.compute_bounds()
            ga.compute_bounds()   # repeated invocation on one object
            evals += 1
            same = np.array_equal(ga._values, gb._values) if kind != "float" else np.allclose(ga._values, gb._values, rtol=1e-12, atol=1e-12)
            if not same:
                fails += 1
                run._report_violation(f"bit_identity[n={n}]/tables_equal", S.sc_sa_equiv, {"n": n},
                                      {"v": v, "revealed_upto": c, "order": order, "kind": kind}, True,
                                      detail={"layer": "bounded", "a": ga._values.tolist(), "b": gb._values.tolist()})
                break
    run.native_evals += evals
    run.native_distinct.update(("bit", n, j) for j in range(evals))
    run.bounded.append({"label": f"bit_identity[n={n}]", "evaluations": evals, "failures": fails,
                        "bound": f"{count} seeded games (int/dyadic exact equality, float allclose 1e-12) along random reveal orders"})


def main(run):
    pkg = run.package()
    contract_functions(run, pkg)
    run.under_contract(pkg, "run.model", ["ModelInstance.get_env"])
    ns = (2, 3, 4, 5, 6)
    for n in ns:
        run.prove(f"equiv[n={n}]", S.sc_sa_equiv, {"n": n},
                  fallback=(lambda n=n: run.bounded_run(f"fallback.equiv[n={n}]", S.sc_sa_equiv, {"n": n},
                                                        _equiv_inputs(run, n, 200), bound="200 seeded states")))
        for comp in ("superadditive", "superadditive_cached"):
            if n <= 5 or run.tier != "quick":
                run.prove(f"repeat.{comp}[n={n}]", S.sc_stale_independent, {"n": n, "computer": comp, "twice": True})
    run.discharge()
    memo_check(run, pkg, (2, 3, 4, 5) if run.tier == "quick" else ns)
    registry_check(run, pkg)
    for n in ((2, 3, 4, 5, 6, 7) if run.tier == "quick" else (2, 3, 4, 5, 6, 7, 8)):
        bit_identity(run, n, (8 if n <= 5 else 3 if n == 6 else 2) if run.tier == "quick" else (40 if n <= 6 else 4))
    from props.C04 import structure_check
    structure_check(run, 10 if run.tier == "quick" else 11)          # the memoised table both cached computers read, per player count
    return run.finish(
        explanation="Relational obligation: both computers run on the same symbolic pre-state (every knowledge set, "
                    "independent stale rows, no class assumption) end in equal tables, per n; repeated invocation "
                    "changes nothing; memoised coalition structure checked under all interleavings of player counts in "
                    "one module instance; registry identity; bit-identity bounded on the real package.")


def _equiv_inputs(run, n, count):
    for i in range(count):
        v = [run.rng.randint(-9, 9) * 0.5 for _ in range(1 << n)]
        v[0] = 0.0
        K = gen.knowledge(run.rng, n)
        d = gen.game_inputs(v, K, n, rng=run.rng, tag="a")
        d.update(gen.game_inputs(v, K, n, rng=run.rng, tag="b"))
        yield d
