"""C19  Saved results read back faithfully and are never overwritten."""
from __future__ import annotations

from props import save_scenarios as SS

LEVEL = "other"


def dataflow_check(run, pkg):
    """The four commands pass exactly the matrices returned by evaluate / get_greedy_rewards / get_best_exploitability
    into Output (callees replaced by stubs returning tagged matrices; run under the model)."""
    import types
    from argparse import Namespace
    import numpy as real_np
    rows = []
    np_ = pkg.mod("run.save").np

    class Inst:
        number_of_players = 3
        run_steps_limit = 2
        parallel_environments = 1
        model_dir = "DIR"
        unique_name = "NAME"
        seed = 1
        gap_function_callable = staticmethod(lambda g: 0)

        def get_env(self):
            return pkg.mod("icg_gym").ICG_Gym.__new__(pkg.mod("icg_gym").ICG_Gym)

    class _Model:
        def predict(self, *a, **k):
            return 0, None
    Inst.model = _Model()
    for modname, fname, callee, ret in (
            ("run.eval", "eval_func", "evaluate", "pair"),
            ("run.solve", "solve_func", "evaluate", "pair"),
            ("run.greedy", "greedy_func", "get_greedy_rewards", "greedy"),
            ("run.best_states", "best_states_func", "get_best_exploitability", "best")):
        m = pkg.mod(modname)
        saved = {}
        E = np_.array([[1.5, 2.5], [3.5, 4.5], [5.5, 6.5]])
        A = np_.array([[3.0, 5.0], [6.0, 3.0]])

        def fake(*a, **k):
            if ret == "pair":
                return E, A
            if ret == "greedy":
                return E, [3, 5]
            return E, [[], [3], [3, 5]]
        old_callee, old_save = getattr(m, callee), m.save
        setattr(m, callee, fake)
        m.save = lambda d, n, out: saved.update(dir=d, name=n, out=out)
        args = Namespace(solver="largest", solve_repetitions=2, sampling_repetitions=2, eval_repetitions=1, func=None,
                         eval_nondeterministic=False)
        try:
            getattr(m, fname)(Inst(), args)
        finally:
            setattr(m, callee, old_callee)
            m.save = old_save
        out = saved.get("out")
        ok = out is not None and saved["dir"] == "DIR" and saved["name"] == "NAME" and out.parsed_args is args
        if ret == "pair":
            ok = ok and out.data is E and out.actions is A
        elif ret == "greedy":
            ok = ok and out.data is E and real_np.asarray(out.actions).tolist() == [[3], [5]]
        else:
            ok = ok and real_np.array_equal(real_np.asarray(out.data, dtype=object), real_np.asarray(E, dtype=object)) \
                and out.actions.shape == (3, 1, 2)
            a = real_np.asarray(out.actions)
            flat = [[None if (isinstance(x, float) and x != x) or "nan" in repr(x) else float(x) for x in row[0]] for row in a]
            ok = ok and flat == [[None, None], [3.0, None], [3.0, 5.0]]
        rows.append({"command": fname, "ok": bool(ok)})
        run.native_evals += 1
        run.native_distinct.add(("flow", fname))
        if not ok:
            run._report_violation(f"dataflow/{fname}", SS.sc_output_roundtrip, {}, {"command": fname}, False,
                                  detail={"kind": "the matrices returned by the evaluation are not the ones handed to save()"})
    run.exhaustive.append({"label": "command data flow (stubs with tagged matrices)", "rows": rows, "exhaustive": True,
                           "space": "eval, solve, greedy, best_states"})


def native_roundtrip(run, count):
    """Bounded: real files, real json: sequences of saves with repeated names; exact round trip of the float matrices."""
    import json
    import math
    import pathlib
    import shutil
    import tempfile
    from argparse import Namespace
    from datetime import datetime
    import numpy as np
    from pyvc.mode import native_pkg
    save = native_pkg().mod("run.save")
    rng = run.rng
    evals = fails = 0
    for _ in range(count):
        d = tempfile.mkdtemp(prefix="c19_")
        try:
            path = pathlib.Path(d) / "data.json"
            expect = {}
            for step in range(rng.randint(1, 8)):
                name = rng.choice(["a", "b", "c", "run-1", "x y", "ä", "a", "run.1", "run.2", "x/run", "y/run", "a.b", "a.c",
                                   "2024-03-07T10:15:42.104233", "2024-03-07T10:15:42.873310", "A", "a "])
                r, c = rng.randint(1, 6), rng.randint(1, 6)
                data = np.array([[rng.choice([rng.uniform(-1e3, 1e3), 1e300, -0.0, 5e-324, float(rng.randint(-5, 5))]) for _ in range(c)]
                                 for _ in range(r + 1)], dtype=float)
                if step % 3 == 2:
                    acts = np.full((r + 1, c, r), np.nan)          # best_states: 3-D, NaN padded
                    for i in range(r + 1):
                        for q in range(c):
                            for j in range(min(i, r)):
                                acts[i, q, j] = float(rng.randint(0, 31))
                else:
                    acts = np.full((r, c), np.nan)
                    for i in range(r):
                        for j in range(c):
                            if rng.random() < 0.7:
                                acts[i, j] = float(rng.randint(0, 31))
                args = Namespace(func=len, model_dir=pathlib.Path("/tmp/x"), when=datetime(2020, 1, 2), seed=step, f=print, none=None)
                out = save.Output(data, acts, args)
                before = path.read_bytes() if path.exists() else None
                save.save_json(path, name, out)
                evals += 1
                if name in expect:
                    if path.read_bytes() != before:
                        fails += 1
                        run._report_violation("native/existing_name.no_effects", SS.sc_save_json, {"file_exists": True}, {"name": name}, True,
                                              detail={"layer": "bounded"})
                        return evals, fails
                else:
                    expect[name] = (data.copy(), acts.copy())
                got = save.get_outputs_from_file(path)
                ok = set(got) == set(expect)
                for k, (dd, aa) in expect.items():
                    o = got.get(k)
                    ok = ok and o is not None and o.data.dtype == np.float64 and o.data.shape == dd.shape and np.array_equal(o.data, dd) \
                        and o.actions.shape == aa.shape and np.array_equal(o.actions, aa, equal_nan=True)
                    try:
                        o2 = save.Output.from_file(path, k)
                        ok = ok and np.array_equal(o2.data, dd)
                    except KeyError:
                        ok = False           # a saved run cannot be read back
                md = json.loads(path.read_text()).get(name, {}).get("metadata", {}) if name in expect else {}
                ok = ok and (name not in expect or md.get("run_type") in ("eval", "learn"))
                if not ok:
                    fails += 1
                    run._report_violation("native/roundtrip", SS.sc_output_roundtrip, {}, {"name": name, "shape": [r, c]}, True,
                                          detail={"layer": "bounded"})
                    return evals, fails
        finally:
            shutil.rmtree(d, ignore_errors=True)
    return evals, fails


def main(run):
    pkg = SS.save_package()
    run.pkg = pkg
    run.under_contract(pkg, "run.save", ["Output.metadata", "Output.data_list", "Output.actions_list", "Output.json", "Output.from_file",
                                         "Output.from_json", "get_outputs_from_file", "get_outputs", "save_json", "json_serializer", "save"])
    run.under_contract(pkg, "run.solve", ["solve_func"])
    run.under_contract(pkg, "run.greedy", ["greedy_func"])
    run.under_contract(pkg, "run.best_states", ["best_states_func", "fill_in_coalitions"])
    run.stubs_used.update(["SpecFS / SpecJSON / SymDict (pyvc/stubs_fs.py)", "evaluate / get_greedy_rewards / get_best_exploitability "
                           "(tagged matrices, data-flow obligation only)"])
    run.trusted.append("A6 file-system contract of SpecFS and JSON identity contract loads(dumps(x)) == x")
    shapes = [(1, 1), (2, 2), (3, 4)] if run.tier == "quick" else [(1, 1), (2, 2), (3, 4), (6, 6), (1, 6)]
    for ex in (True, False):
        for rows, cols in shapes:
            run.prove(f"save_json[file_exists={ex},shape={rows}x{cols}]", SS.sc_save_json,
                      {"file_exists": ex, "rows": rows, "cols": cols, "atomic": False}, pkg=pkg)
    for rows, cols in shapes:
        for nan in (True, False):
            run.prove(f"roundtrip[shape={rows}x{cols},nan={nan}]", SS.sc_output_roundtrip, {"rows": rows, "cols": cols, "nan": nan}, pkg=pkg)
    run.prove("save_twice.other_process_in_between", SS.sc_save_twice, {"rows": 1, "cols": 2}, pkg=pkg)
    for rows, cols in shapes[:3]:
        run.prove(f"pipeline[shape={rows}x{cols}]", SS.sc_save_pipeline, {"rows": rows, "cols": cols}, pkg=pkg)
    for rows in (1, 2, 3):
        run.prove(f"roundtrip.3d[steps={rows}]", SS.sc_output_roundtrip, {"rows": rows, "cols": 2, "three_d": True}, pkg=pkg)
    run.discharge()
    dataflow_check(run, pkg)
    run.bounded_run("native.save_twice", SS.sc_save_twice, {"rows": 2, "cols": 3}, [{}], tol=0.0,
                    bound="real files: save, a fork()ed process saves, save again; then the file is moved away and a further save follows")
    e, f = native_roundtrip(run, 15 if run.tier == "quick" else 150)
    run.native_evals += e
    run.native_distinct.update(("rt", j) for j in range(e))
    run.bounded.append({"label": "real files + real json: save sequences with repeated names", "evaluations": e, "failures": f,
                        "bound": "seeded sequences of 1..8 saves, shapes 1..6 x 1..6, NaN / -0.0 / 1e300 / subnormal entries, non-JSON metadata"})
    return run.finish(
        explanation="save_json's contract over the abstract file system for an arbitrary earlier mapping: an existing name has no "
                    "effect at all, a new name yields old mapping + {name: out.json} with nothing overwritten or deleted (so by "
                    "induction every sequence of saves keeps every earlier entry); Output.from_json(json(out)) proved to carry "
                    "symbolic matrices (NaN as poison) through unchanged under the JSON identity contract; command data flow by "
                    "tagged stubs. The byte-level round trip rests on json/numpy internals and is bounded on real files - hence "
                    "level 'other' (deductive core + bounded library clause).")
