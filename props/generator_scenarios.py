"""C10: the game generators."""
from __future__ import annotations

from props.scenarios import G, scenario

UNSEEDED = {"graph", "graph_tirangular", "graph_increasing", "graph_decreasing", "graph_03_03", "predictible_factory"}
SAM_KEYS = {"xos", "xos_one", "xos2", "xos3", "xos12", "xos_norm_additive", "xos2_norm_additive", "xos3_norm_additive",
            "xos12_norm_additive", "xs", "oxs", "xs2", "xs3", "xs6", "k_budget_generator", "covg_fn_generator"}
EXACT_KEYS_PREFIX = ("factory", "predictible_factory", "graph", "k_budget", "covg", "noisy_factory")


def ignores_rng(key):
    return key in UNSEEDED or key.startswith("graph_beta_") or key.startswith("graph_poiss_")


def generator_package():
    from pyvc import loader, stubs_gen
    return loader.Package(stubs={"math": stubs_gen.math_stub(), "networkx": stubs_gen.networkx_stub()})


@scenario
def sc_generator(M, key, n, exact=None, second=True):
    """GENERATORS[key](n, rng) for EVERY outcome of the random draws: raises nothing (incl. its own asserts); n players;
    2^n float64 values; v(empty) = 0; superadditive (exactly, or accepted by the library's tolerance for the families whose
    construction divides); monotone non-increasing for XOS / XS / OXS / K-budget / coverage; every draw comes from the
    supplied generator unless the key is a documented exception."""
    gens = M.mod("generators")
    rng = M.generator()
    if M.symbolic:
        from pyvc.core import CTX
        CTX.notes["in_generator_call"] = True
        part = gens.GENERATORS[key]
        nud = getattr(part, "keywords", {}).get("num_unit_demand", 0) if hasattr(part, "keywords") else 0
        CTX.notes["redraw_limit"] = max(3, nud)
    game = gens.GENERATORS[key](n, rng)
    M.check("number_of_players", game.number_of_players == n)
    vals = game.get_values()
    M.check("value_count", len(vals) == (1 << n))
    if not M.symbolic:
        import numpy as np
        M.check("dtype_float64", np.asarray(vals).dtype == np.float64)
    v = [M.val(x) for x in vals]
    M.check("empty_is_zero", v[0] == 0)
    # in real arithmetic every family is exactly superadditive; natively (float64) the library's own tolerance applies
    if M.symbolic:
        for j, c in enumerate(G.superadditive(n, v)):
            M.check(f"superadditive[{j}]", c)
    else:
        from props.normalize_scenarios import accepted_superadditive
        for j, c in enumerate(accepted_superadditive(M, n, v)):
            M.check(f"superadditive[{j}]", c)
    if key in SAM_KEYS:
        for j, c in enumerate(G.monotone_nonincreasing(n, v)):
            M.check(f"monotone[{j}]", c)
    # every invocation returns a game of its own: a caller that modifies one result (the environment normalises
    # copies, experiments rescale games in place) must not change what another invocation returned
    rng2 = None
    if not second:
        return _frame(M, key, rng, rng2)
    rng2 = M.generator() if M.symbolic else __import__("numpy").random.default_rng(12345)
    game2 = gens.GENERATORS[key](n, rng2)
    before2 = [M.val(x) for x in game2.get_values()]
    M.check("fresh_object", game2 is not game)
    if hasattr(game, "_graph_matrix"):
        game._graph_matrix[0, n - 1] = game._graph_matrix[0, n - 1] + 5
    else:
        game.set_value(game.get_value(M.mod("coalitions").Coalition(3)) + 5, M.mod("coalitions").Coalition(3))
    after2 = [M.val(x) for x in game2.get_values()]
    M.check("independent_of_other_results", M.and_(*[a == b for a, b in zip(before2, after2)]))
    _frame(M, key, rng, rng2)


def _frame(M, key, rng, rng2):
    if M.symbolic:
        from pyvc.core import CTX
        log = CTX.notes.get("rng_log", [])
        if not ignores_rng(key):
            mine = {rng.tag} | ({rng2.tag} if rng2 is not None else set())
            foreign = [t for t, kind in log if t not in mine and not t.startswith("rng")]
            M.check("draws_only_from_argument", not foreign)
        else:
            M.check("documented_exception", True)
