"""C18  Coalitions are finite sets in both representations; predicates match definitions."""
from __future__ import annotations

from props import coalition_scenarios as CS
from spec import sets as SS

LEVEL = "proof"


def enumerate_check(run, n):
    """Exhaustive for player count n: every enumerating function, for every coalition id below 2^n, equals the spec's
    set (as a set and without repetition); object-based and id-array-based implementations agree."""
    import numpy as np
    from pyvc.mode import native_pkg
    P = native_pkg()
    co, ci, fz, game_m = P.mod("coalitions"), P.mod("coalition_ids"), P.mod("functoolz"), P.mod("game")
    N = 1 << n
    bad = []

    def same(tag, got, exp, ordered=False, as_set=False):
        got = [int(x) for x in got]
        if as_set:
            got = sorted(set(got))
        if len(got) != len(set(got)) or set(got) != set(exp) or (ordered and got != list(exp)):
            bad.append((tag, got[:8], list(exp)[:8]))

    same("all_coalitions", [c.id for c in co.all_coalitions(n)], range(N), ordered=True)
    same("get_all_coalitions", ci.get_all_coalitions(n), range(N), ordered=True)
    same("minimal_game_coalitions", [c.id for c in co.minimal_game_coalitions(n)], SS.minimal(n), as_set=True)
    g = game_m.IncompleteCooperativeGame(n)
    same("all_coalitions(game)", [c.id for c in co.all_coalitions(g)], range(N), ordered=True)
    same("minimal_game_coalitions(game)", [c.id for c in co.minimal_game_coalitions(g)], SS.minimal(n), as_set=True)
    known = [c for c in range(N) if (c * 7 + 3) % 5 < 2] + [0]
    for c in known:
        g.set_value(1.0, co.Coalition(c))
    same("get_known_coalitions", [c.id for c in co.get_known_coalitions(g)], sorted(set(known)), ordered=True)
    if co.grand_coalition(n).id != N - 1 or co.grand_coalition(g).id != N - 1:
        bad.append(("grand_coalition", co.grand_coalition(n).id, N - 1))
    evals = 6
    for c in range(N):
        C = co.Coalition(c)
        mem = SS.members(c)
        same(f"players[{c}]", list(C.players), mem, ordered=True)
        same(f"ids.players[{c}]", ci.players(np.int32(c), n), mem, ordered=True)
        if co.Coalition.from_players(mem).id != c or co.Coalition.from_players(mem + mem).id != c:
            bad.append((f"from_players[{c}]", co.Coalition.from_players(mem).id, c))
        if len(C) != len(mem) or int(ci.get_size(np.int32(c), n)) != len(mem):
            bad.append((f"size[{c}]", len(C), len(mem)))
        subs = SS.subsets(c)
        sups = SS.supersets(c, n)
        same(f"get_sub_coalitions[{c}]", [x.id for x in co.get_sub_coalitions(C)], subs)
        same(f"ids.sub_coalitions[{c}]", ci.sub_coalitions(np.int32(c), n), subs)
        same(f"get_super_coalitions[{c}]", [x.id for x in co.get_super_coalitions(C, n)], sups)
        same(f"ids.super_coalitions[{c}]", ci.super_coalitions(np.int32(c), n), sups)
        if C.inverted(n).id != (N - 1) ^ c:
            bad.append((f"inverted[{c}]", C.inverted(n).id, (N - 1) ^ c))
        evals += 9
    ps = [tuple(x) for x in fz.powerset(list(range(n)))]
    if len(ps) != N or len(set(ps)) != N or {sum(1 << i for i in t) for t in ps} != set(range(N)):
        bad.append(("powerset", len(ps), N))
    if n <= 6:
        for a in range(N):
            for b in range(N):
                A, B = co.Coalition(a), co.Coalition(b)
                if (A & B).id != a & b or (A | B).id != a | b or (A - B).id != a & ~b or (B in A) != (a & b == b) \
                        or (A == B) != (a == b) or co.disjoint_coalitions(A, B) != (a & b == 0):
                    bad.append((f"pair[{a},{b}]", None, None))
        evals += N * N
    return evals, bad


def predicate_samples(run, n, count):
    """Bounded: predicates on random integer / float games at larger n against brute-force definitions."""
    from pyvc.mode import native_pkg
    from rt import gen
    P = native_pkg()
    gp, game_m, co = P.mod("game_properties"), P.mod("game"), P.mod("coalitions")
    bad = []
    for i in range(count):
        if i % 3 == 0:
            v = gen.superadditive_game(run.rng, n, kind="int", monotone=(i % 2 == 0))
        else:
            v = [0.0] + [float(run.rng.randint(-3, 6)) for _ in range((1 << n) - 1)]
        if i % 5 == 4:    # break superadditivity slightly at one place
            u = run.rng.randrange(3, 1 << n)
            v[u] -= 0.5
        g = game_m.IncompleteCooperativeGame(n)
        g.set_values(v)
        exp_sa = all(v[s] + v[t] <= v[u] or abs(v[s] + v[t] - v[u]) <= 1e-9 * abs(v[u]) for u in range(1, 1 << n) for s, t in SS.splits(u))
        exp_mono = all(v[u ^ (1 << j)] >= v[u] for u in range(1, 1 << n) for j in range(n) if u >> j & 1)
        if bool(gp.is_superadditive(g)) != exp_sa or bool(gp.is_monotone_decreasing(g)) != exp_mono or bool(gp.is_sam(g)) != (exp_sa and exp_mono):
            bad.append(v)
    return count, bad


def main(run):
    pkg = run.package()
    run.under_contract(pkg, "coalitions", ["Coalition.__contains__", "Coalition.__and__", "Coalition.__or__", "Coalition.__len__",
                                           "Coalition.__eq__", "Coalition.__sub__", "Coalition.__add__", "Coalition.inverted",
                                           "Coalition.players", "Coalition.from_players", "player_to_coalition", "grand_coalition",
                                           "all_coalitions", "minimal_game_coalitions", "exclude_coalition", "get_known_coalitions",
                                           "get_sub_coalitions", "get_super_coalitions", "disjoint_coalitions"])
    run.under_contract(pkg, "coalition_ids", ["get_all_coalitions", "players", "get_size", "sub_coalitions", "super_coalitions"])
    run.under_contract(pkg, "functoolz", ["powerset"])
    run.under_contract(pkg, "game_properties", ["is_superadditive", "is_monotone_decreasing", "is_sam"])
    run.under_contract(pkg, "supermodularity_check", ["check_supermodularity"])
    quick = run.tier == "quick"
    W = 16 if quick else 24
    run.prove(f"ops[W={W}]", CS.sc_coalition_ops, {"W": W})
    run.prove(f"len[W={W}]", CS.sc_coalition_len, {"W": W})
    for n in range(1, (10 if quick else 12) + 1):
        run.prove(f"inverted_grand[W={W},n={n}]", CS.sc_coalition_n, {"W": W, "n": n})
    run.prove(f"lemma.id_tricks[W={W}]", CS.lem_id_tricks, {"W": W}, lemma=True)
    for n in ((1, 2, 3, 4) if quick else (1, 2, 3, 4, 5)):
        run.prove(f"is_superadditive[n={n}]", CS.sc_pred_superadditive, {"n": n})
        if n > 4:
            continue
        run.prove(f"is_superadditive.exact[n={n}]", CS.sc_pred_superadditive, {"n": n, "rtol": 0, "atol": 0})
        run.prove(f"is_superadditive.tol[n={n}]", CS.sc_pred_superadditive, {"n": n, "rtol": 0.001, "atol": 0.5})
        if n <= 3:
            run.prove(f"is_monotone_decreasing[n={n}]", CS.sc_pred_monotone, {"n": n}, max_paths=20000)
            run.prove(f"check_supermodularity[n={n}]", CS.sc_pred_supermodular, {"n": n})
    run.discharge()
    for n in range(1, (10 if quick else 12) + 1):
        e, bad = enumerate_check(run, n)
        run.native_evals += e
        run.native_distinct.update(("enum", n, j) for j in range(e))
        run.exhaustive.append({"label": f"enumerations[n={n}]", "evaluations": e, "failures": len(bad), "exhaustive": True,
                               "space": f"every coalition id below 2^{n} (all pairs for n<=6), object-based and id-array-based"})
        for tag, got, exp in bad[:2]:
            run._report_violation(f"enumerate[n={n}]/{tag}", CS.sc_coalition_len, {"W": 16}, {"n": n, "got": got, "expected": exp},
                                  True, detail={"layer": "exhaustive"})
    for n in (5, 6, 7, 8):
        cnt = (4 if n <= 6 else 2) if quick else 30
        e, bad = predicate_samples(run, n, cnt)
        run.native_evals += e
        run.native_distinct.update(("pred", n, j) for j in range(e))
        run.bounded.append({"label": f"predicates[n={n}]", "evaluations": e, "failures": len(bad), "bound": "seeded integer games incl. near misses"})
        for v in bad[:1]:
            run._report_violation(f"predicates[n={n}]/matches_definition", CS.sc_pred_superadditive, {"n": n},
                                  {f"v{c}": v[c] for c in range(1, 1 << n)}, True, detail={"layer": "bounded"})
    return run.finish(
        explanation=f"Scalar coalition operations proved against elementwise set semantics for ALL pairs of {W}-bit coalitions "
                    f"and all players (every n <= {W}) with z3 bit-vectors; enumerating functions checked exhaustively per n; "
                    "predicates proved equivalent to their definitions (with the documented tolerance, and exactly at zero "
                    "tolerance) on symbolic value vectors; check_supermodularity returns None only for supermodular games and "
                    "otherwise a genuinely violating triple.")
