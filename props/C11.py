"""C11  Exhaustive search evaluates each reveal set once, correctly; finds the optimum."""
from __future__ import annotations

import itertools

from props import env_scenarios as E
from rt import gen
from spec.sets import minimal

LEVEL = "other"


def enumeration_check(run, n):
    """Exhaustive: possible_action_sequences for EVERY knowledge set of n players and every size limit."""
    from pyvc.mode import native_pkg
    P = native_pkg()
    gp, game_m, co = P.mod("gameplay"), P.mod("game"), P.mod("coalitions")
    mini = minimal(n)
    non_min = [c for c in range(1 << n) if c not in mini]
    evals = 0
    for mask in range(1 << len(non_min)):
        K = set(mini) | {non_min[j] for j in range(len(non_min)) if mask >> j & 1}
        g = game_m.IncompleteCooperativeGame(n)
        g.set_known_values([1.0] * len(K), [co.Coalition(c) for c in sorted(K)])
        unknown = [c for c in range(1 << n) if c not in K]
        if [c.id for c in gp.possible_next_actions(g)] != unknown:
            return evals, {"K": sorted(K), "what": "possible_next_actions"}
        for k in list(range(len(unknown) + 1)) + [None]:
            if n == 4 and len(unknown) > 6 and k not in (0, 1, 2, None):
                continue
            evals += 1
            got = [[c.id for c in s] for s in gp.possible_action_sequences(g, k)]
            lim = len(unknown) if k is None else k
            exp = [list(c) for size in range(lim + 1) for c in itertools.combinations(unknown, size)]
            if got != exp:
                return evals, {"K": sorted(K), "k": k, "got": got[:5], "expected": exp[:5]}
    return evals, None


def pool_check(run, n, procs_list, count):
    """Bounded: the real multiprocessing.Pool: results equal the sequential evaluation and an independent recomputation,
    for several worker counts (the only place the real pool is exercised for C11)."""
    import numpy as np
    from pyvc.mode import native_pkg
    P = native_pkg()
    gp, game_m, co, bounds, model, mg = (P.mod("gameplay"), P.mod("game"), P.mod("coalitions"), P.mod("bounds"), P.mod("run.model"),
                                         P.mod("meta_game"))
    evals = 0
    for i in range(count):
        comp = ("superadditive_cached", "superadditive", "sam_apx_1")[i % 3]
        gapname = ("exploitability", "l1_norm", "l2_norm", "linf_norm")[i % 4]
        gapf = model.GAP_FUNCTIONS[gapname]
        v = gen.superadditive_game(run.rng, n, kind=("int", "float")[i % 2], monotone=(comp == "sam_apx_1"))
        full = game_m.IncompleteCooperativeGame(n)
        full.set_values(np.array(v))
        K = sorted(gen.knowledge(run.rng, n, p=0.3))
        k = run.rng.choice([1, 2, None]) if n <= 3 else run.rng.choice([1, 2])
        ref = None
        for p in procs_list:
            evals += 1
            g = game_m.IncompleteCooperativeGame(n, bounds.BOUNDS[comp])
            # the work space holds the starting KNOWLEDGE; its values are those an earlier search of another game left
            stale = [0.0 if c == 0 else v[c] + float(run.rng.randint(-3, 3)) for c in K] if i % 2 else [v[c] for c in K]
            g.set_known_values(stale, [co.Coalition(c) for c in K])
            res = [([c.id for c in s], float(x)) for s, x in gp.get_exploitabilities_of_action_sequences(g, full, gapf, max_size=k, processes=p)]
            if ref is None:
                ref = res
                for ids, x in res:
                    h = game_m.IncompleteCooperativeGame(n, bounds.BOUNDS[comp])
                    ks = sorted(set(K) | set(ids))
                    h.set_known_values([v[c] for c in ks], [co.Coalition(c) for c in ks])
                    h.compute_bounds()
                    if float(gapf(h)) != x:
                        return evals, {"what": "gap differs from independent recomputation", "set": ids, "K": K, "v": v, "computer": comp, "gap": gapname}
                if comp != "sam_apx_1" and set(K) == set(minimal(n)):
                    pass
            elif res != ref:
                return evals, {"what": "result depends on the number of worker processes", "processes": p, "K": K, "v": v}
    # the meta-game returns the same quantity - for several meta-game objects alive at once (different full games, gap
    # functions and bound computers), asked alternately
    non_min = [c for c in range(1 << n) if c not in minimal(n)]
    objs = []
    for j, (gapname, comp) in enumerate((("exploitability", "superadditive_cached"), ("exploitability", "superadditive_cached"),
                                         ("l1_norm", "superadditive"), ("linf_norm", "sam_apx_1"))):
        v = gen.superadditive_game(run.rng, n, kind=("int", "float")[j % 2], monotone=(comp == "sam_apx_1"))
        full = game_m.IncompleteCooperativeGame(n)
        full.set_values(np.array(v))
        inc = game_m.IncompleteCooperativeGame(n, bounds.BOUNDS[comp])
        objs.append((mg.MetaGame(full, inc, model.GAP_FUNCTIONS[gapname]), v, gapname, comp))
    metas = list(range(min(1 << len(non_min), 64)))
    for meta in metas + run.rng.sample(metas, min(8, len(metas))):
        ids = sorted(set(minimal(n)) | {non_min[j] for j in range(len(non_min)) if meta >> j & 1})
        for m, v, gapname, comp in objs:
            evals += 1
            h = game_m.IncompleteCooperativeGame(n, bounds.BOUNDS[comp])
            h.set_known_values([v[c] for c in ids], [co.Coalition(c) for c in ids])
            h.compute_bounds()
            if float(m.get_value(co.Coalition(meta))) != float(model.GAP_FUNCTIONS[gapname](h)):
                return evals, {"what": "meta-game value differs from the gap of its own game at that knowledge", "meta": meta, "v": v,
                               "gap": gapname, "computer": comp, "meta_game_objects_alive": len(objs)}
    return evals, None


class _Fixed:
    """A picklable generator returning the given complete games in turn."""

    def __init__(self, games, n):
        self.games, self.n, self.i = games, n, 0

    def __call__(self, *a):
        from pyvc.mode import native_pkg
        import numpy as np
        g = native_pkg().mod("game").IncompleteCooperativeGame(self.n)
        g.set_values(np.array(self.games[self.i % len(self.games)], dtype=float))
        self.i += 1
        return g


def block_game(rng, n):
    """A superadditive 4-player game in which one pair of players already produces everything (v(P) = v(N) = 1, the
    complementary pair is worth 0, the other values dyadic).  Reveal sets that pin such a game down completely exist
    at sizes well below the number of unknown coalitions, followed in enumeration order by sets with a positive gap."""
    from rt.gen import is_superadditive
    assert n == 4
    while True:
        P = rng.choice([3, 5, 6, 9, 10, 12])
        Q = 15 ^ P
        v = [0.0] * 16
        for c in range(16):
            k = bin(c).count("1")
            if k == 2:
                v[c] = 1.0 if c == P else 0.0 if c == Q else rng.choice([0.0, 0.25, 0.5])
        for c in range(16):
            if bin(c).count("1") == 3:
                pairs = [d for d in range(16) if bin(d).count("1") == 2 and d & c == d]
                v[c] = 1.0 if P & c == P else min(1.0, max(v[d] for d in pairs) + rng.choice([0.0, 0.25]))
        v[15] = 1.0
        if is_superadditive(v, 4):
            return v


def best_states_bruteforce(run, n, steps, reps, procs, structured=False):
    """Bounded: get_best_exploitability on the real package against brute force over ALL reveal sets of each size,
    several sampled games (so that mean, max and single columns differ)."""
    import itertools as it
    import numpy as np
    from pyvc.mode import native_pkg
    P = native_pkg()
    model, bs, game_m, bounds, co = P.mod("run.model"), P.mod("run.best_states"), P.mod("game"), P.mod("bounds"), P.mod("coalitions")
    inst = model.ModelInstance(number_of_players=n, game_class="superadditive_cached", game_generator="noisy_factory",
                               seed=run.rng.randrange(1 << 30))
    env = inst.get_env()
    if structured:
        # "fixed": the instance an adversary found (seeded/C11-b) - players 0 and 1 already produce everything; proper
        # reveal sets pin it down completely (mean gap exactly 0.0), followed in enumeration order by sets with a positive gap
        fixed = [0.0, 0.0, 0.0, 1.0, 0.0, 0.5, 0.5, 1.0, 0.0, 0.25, 0.25, 1.0, 0.0, 0.75, 0.75, 1.0]
        one = fixed if structured == "fixed" else block_game(run.rng, n)
        env.generator = _Fixed([one for _ in range(reps)], n)
    games = []
    orig = env.generator

    def recording():
        g = orig()
        games.append(np.array(g.get_values(), copy=True))
        return g
    env.generator = recording
    rows, sets = bs.get_best_exploitability(env, steps, reps, inst.gap_function_callable, processes=procs)
    games = games[-reps:]
    expl = [c.id for c in env.explorable_coalitions]
    gapf = inst.gap_function_callable
    for s in range(steps + 1):
        best = None
        for cmb in it.combinations(expl, s):
            col = []
            for v in games:
                g = game_m.IncompleteCooperativeGame(n, bounds.BOUNDS["superadditive_cached"])
                ks = sorted(set(minimal(n)) | set(cmb))
                g.set_known_values([v[c] for c in ks], [co.Coalition(c) for c in ks])
                g.compute_bounds()
                col.append(float(gapf(g)))
            m = float(np.mean(col))
            if best is None or m < best[0] - 1e-12:
                best = (m, cmb, col)
        got = float(np.mean(rows[s]))
        if abs(got - best[0]) > 1e-9 * max(1.0, abs(best[0])) or len(sets[s]) != s:
            return {"n": n, "size": s, "reported_mean": got, "optimal_mean": best[0], "reported_set": list(map(int, sets[s])),
                    "optimal_set": list(best[1]), "repetitions": reps, "processes": procs}
    return None


def main(run):
    pkg = E.solver_package()
    run.pkg = pkg
    run.under_contract(pkg, "gameplay", ["possible_next_actions", "possible_action_sequences", "apply_action_sequence",
                                         "_get_act_sequence_exploitability", "get_exploitabilities_of_action_sequences",
                                         "sample_exploitabilities_of_action_sequences", "get_exploitabilities_of_action_sequence",
                                         "get_stacked_exploitabilities_of_action_sequences"])
    run.under_contract(pkg, "meta_game", ["MetaGame.__init__", "MetaGame.get_value", "MetaGame.get_values"])
    run.under_contract(pkg, "run.best_states", ["get_best_exploitability", "fill_in_coalitions"])
    run.stubs_used.update(["multiprocessing.Pool (SpecPool: starmap(f, it) == [f(*deepcopy(a)) for a in it], any process count)"])
    run.trusted.append("A6 multiprocessing.Pool.starmap contract: results in input order, each task on a private deep copy, for "
                       "every process count and chunking")
    quick = run.tier == "quick"
    cases = [(3, "superadditive_cached", "exploitability", [0, 1, 2, 4, 7, 3], [5]), (3, "superadditive", "l1_norm", [0, 1, 2, 4, 7], [3, 6]),
             (4, "superadditive", "l2_norm", [0, 1, 2, 4, 8, 15, 3], [5, 12]), (4, "superadditive_cached", "linf_norm", [0, 1, 2, 4, 8, 15], []),
             (4, "superadditive_cached", "exploitability", [0, 1, 2, 4, 8, 15, 7, 11], [13, 14, 6])]
    for n, comp, gap, known, seq in cases:
        run.prove(f"act_sequence_gap[n={n},{comp},{gap},seq={seq}]", E.sc_act_sequence_gap,
                  {"n": n, "computer": comp, "gap": gap, "known": known, "seq": seq}, pkg=pkg)
    for n, gap, metas in ((3, "l1_norm", range(8)), (4, "exploitability", (0, 1, 5, 1023, 682) if quick else run.rng.sample(range(1024), 20))):
        for meta in metas:
            run.prove(f"meta_game[n={n},{gap},meta={meta}]", E.sc_meta_game, {"n": n, "gap": gap, "meta": meta}, pkg=pkg)
    # several meta-game objects in one process (different full games / gap functions), queried alternately
    run.prove("meta_game_pair[n=3,l1,l1]", E.sc_meta_game_pair, {"n": 3, "gap_a": "l1_norm", "gap_b": "l1_norm", "metas": [0, 5, 7]}, pkg=pkg)
    run.prove("meta_game_pair[n=3,l1,linf]", E.sc_meta_game_pair, {"n": 3, "gap_a": "l1_norm", "gap_b": "linf_norm", "metas": [3, 0]}, pkg=pkg)
    run.prove("meta_game_pair[n=4,expl,expl]", E.sc_meta_game_pair, {"n": 4, "gap_a": "exploitability", "gap_b": "exploitability", "metas": [0, 682]},
              pkg=pkg)
    run.prove("search[n=3,all]", E.sc_search, {"n": 3, "max_size": None}, pkg=pkg)
    run.prove("search[n=3,k=2,start={3}]", E.sc_search, {"n": 3, "max_size": 2, "gap": "l1_norm", "start": [3]}, pkg=pkg)
    run.prove("search[n=4,k=2,start={3,12}]", E.sc_search, {"n": 4, "max_size": 2, "gap": "linf_norm", "start": [3, 12]}, pkg=pkg)
    run.prove("best_states[n=3,steps=3,reps=2]", E.sc_best_states, {"n": 3, "max_steps": 3, "repetitions": 2}, pkg=pkg)
    run.prove_parallel("best_states[n=4,steps=1,reps=1]", E.sc_best_states, {"n": 4, "max_steps": 1, "repetitions": 1, "gap": "l1_norm"}, pkg=pkg)
    if not quick:
        run.prove_parallel("best_states[n=4,steps=1,reps=2]", E.sc_best_states, {"n": 4, "max_steps": 1, "repetitions": 2}, pkg=pkg)
    run.discharge()
    for n in ((2, 3, 4) if not quick else (2, 3)):
        e, w = enumeration_check(run, n)
        run.native_evals += e
        run.native_distinct.update(("enum", n, j) for j in range(e))
        run.exhaustive.append({"label": f"possible_action_sequences[n={n}]", "evaluations": e, "failure": w, "exhaustive": True,
                               "space": "every knowledge set containing the minimal information x every size limit"})
        if w:
            run._report_violation(f"enumeration[n={n}]/each_subset_once_by_size", E.sc_search, {"n": n, "max_size": w.get("k")}, w, True,
                                  detail={"layer": "exhaustive"})
    if quick:
        e, w = 0, None
    rows = []
    for n in (3, 4):
        e, w = pool_check(run, n, (1, 2, 4) if quick else (1, 2, 3, 4, 8, 16), 3 if quick else 12)
        run.native_evals += e
        run.native_distinct.update(("pool", n, j) for j in range(e))
        rows.append({"n": n, "evaluations": e, "failure": w})
        if w:
            run._report_violation(f"pool[n={n}]/independent_of_workers", E.sc_search, {"n": n, "max_size": 1}, w, True, detail={"layer": "bounded"})
    bf = []
    for n, steps, reps, procs, structured in (((3, 3, 3, 1, False), (4, 2, 3, 2, False), (4, 10, 2, 1, "fixed"), (4, 10, 2, 1, True), (4, 10, 1, 1, True))
                                              if quick else
                                              ((3, 3, 4, 1, False), (4, 2, 3, 2, False), (4, 3, 2, 3, False), (4, 10, 2, 1, "fixed"), (4, 10, 2, 1, True),
                                               (4, 10, 1, 3, True), (4, 10, 2, 2, True), (4, 10, 1, 1, True))):
        w = best_states_bruteforce(run, n, steps, reps, procs, structured)
        run.native_evals += 1
        run.native_distinct.add(("bf", n, steps, reps, str(structured), len(bf)))
        bf.append({"n": n, "steps": steps, "repetitions": reps, "processes": procs, "block_additive_games": structured, "failure": w})
        if w:
            run._report_violation(f"best_states.native[n={n},reps={reps}]/optimal", E.sc_best_states, {"n": n, "max_steps": steps, "repetitions": reps},
                                  w, True, detail={"layer": "bounded"})
    run.bounded.append({"label": "best-states vs brute force over all reveal sets (several sampled games)", "rows": bf,
                        "bound": "noisy_factory, n=3 (3 steps), n=4 (2 steps), 3 sampled games"})
    run.bounded.append({"label": "real multiprocessing.Pool", "rows": rows,
                        "bound": "process counts 1,2,4 (up to 16 thorough), seeded games x knowledge x computers x gap functions; meta-game values"})
    return run.finish(
        explanation="The per-task function proved to return the gap of EXACTLY starting knowledge + reveal set for a symbolic hidden "
                    "game and an arbitrary incoming state of the work game (so the result is a function of the task's arguments "
                    "alone); the meta-game returns the same quantity; the search enumerates each subset once by increasing size "
                    "(exhaustively checked for every knowledge set); best-states reports per size a set of minimal mean among ALL "
                    "sets of that size and a non-increasing curve. Independence of the worker count follows under the ASSUMED "
                    "starmap contract and is additionally exercised with the real pool (bounded) - hence level 'other'.")
