"""C17: the incomplete game object against its abstract view  coalition -> (known?, lower, upper)."""
from __future__ import annotations

from props.scenarios import scenario


def arbitrary_state(M, n, tag="", computer=None):
    """A game object in an arbitrary state satisfying RI (known => lower = upper = value) and its model view."""
    game_m = M.mod("game")
    g = game_m.IncompleteCooperativeGame(n) if computer is None else game_m.IncompleteCooperativeGame(n, computer)
    view = {}
    for c in range(1 << n):
        k = M.bool(f"{tag}k{c}")
        val, lo, up = M.real(f"{tag}val{c}"), M.real(f"{tag}lo{c}"), M.real(f"{tag}up{c}")
        M.put_row(g, c, k, val, lo, up)
        view[c] = (k, M.ite(k, val, lo), M.ite(k, val, up))
    return g, view


def read_view(M, g, n):
    kn = [M.val(x) for x in g.are_values_known()]
    lo = [M.val(x) for x in g.get_lower_bounds()]
    up = [M.val(x) for x in g.get_upper_bounds()]
    return {c: (kn[c], lo[c], up[c]) for c in range(1 << n)}


def check_view(M, tag, got, exp, n):
    for c in range(1 << n):
        M.check(f"{tag}.known[{c}]", M.iff(got[c][0], exp[c][0]))
        M.check(f"{tag}.lower[{c}]", got[c][1] == exp[c][1])
        M.check(f"{tag}.upper[{c}]", got[c][2] == exp[c][2])
        M.check(f"{tag}.RI[{c}]", M.implies(got[c][0], got[c][1] == got[c][2]))


@scenario
def sc_game_constructor(M, n):
    game_m = M.mod("game")
    C = M.mod("coalitions").Coalition
    g = game_m.IncompleteCooperativeGame(n)
    got = read_view(M, g, n)
    exp = {c: (c == 0, M.const(0), M.const(0)) for c in range(1 << n)}
    check_view(M, "init", got, exp, n)
    M.check("init.number_of_players", g.number_of_players == n)
    M.check("init.empty_value", M.val(g.get_value(C(0))) == 0)


@scenario
def sc_game_scalar_op(M, n, op, c):
    """set_value / unset_value / reveal_value / unreveal_value / set_upper_bound / set_lower_bound on coalition c."""
    C = M.mod("coalitions").Coalition
    g, view = arbitrary_state(M, n)
    x = M.real("x")
    exp = dict(view)
    k = view[c][0]
    if op == "set_value":
        g.set_value(x, C(c))
        exp[c] = (True, x, x)
    elif op == "unset_value":
        g.unset_value(C(c))
        exp[c] = (False, M.const(0), M.const(0))
    elif op == "reveal_value":
        raised = M.expect_raises((AssertionError,), lambda: g.reveal_value(x, C(c)))
        M.check("reveal.asserts_unknown", M.iff(raised, k))
        if raised:
            exp = view
        else:
            exp[c] = (True, x, x)
    elif op == "unreveal_value":
        raised = M.expect_raises((AssertionError,), lambda: g.unreveal_value(C(c)))
        M.check("unreveal.asserts_known", M.iff(raised, M.not_(k)))
        if not raised:
            exp[c] = (False, M.const(0), M.const(0))
    elif op == "set_upper_bound":
        M.assume(M.not_(k))              # requires: coalition unknown (that is what preserves RI)
        g.set_upper_bound(x, C(c))
        exp[c] = (False, view[c][1], x)
    elif op == "set_lower_bound":
        M.assume(M.not_(k))
        g.set_lower_bound(x, C(c))
        exp[c] = (False, x, view[c][2])
    check_view(M, op, read_view(M, g, n), exp, n)


@scenario
def sc_game_getters(M, n, c):
    """Getters never return the value of an unknown coalition as a value (error / None / NaN instead)."""
    C = M.mod("coalitions").Coalition
    g, view = arbitrary_state(M, n)
    k, lo, up = view[c]
    out = {}
    raised = M.expect_raises((ValueError,), lambda: out.__setitem__("v", g.get_value(C(c))))
    M.check("get_value.raises_iff_unknown", M.iff(raised, M.not_(k)))
    if not raised:
        M.check("get_value.is_value", M.val(out["v"]) == lo)
    kv = g.get_known_value(C(c))
    M.check("get_known_value.none_iff_unknown", M.iff(kv is None, M.not_(k)))
    if kv is not None:
        M.check("get_known_value.is_value", M.val(kv) == lo)
    M.check("is_value_known", M.iff(M.val(g.is_value_known(C(c))), k))
    M.check("get_lower_bound", M.val(g.get_lower_bound(C(c))) == lo)
    M.check("get_upper_bound", M.val(g.get_upper_bound(C(c))) == up)
    iv = g.get_interval(C(c))
    M.check("get_interval", M.and_(M.val(iv[0]) == lo, M.val(iv[1]) == up))
    M.check("view_unchanged", True)
    check_view(M, "getters.frame", read_view(M, g, n), view, n)


@scenario
def sc_game_bulk_getters(M, n, coalitions=None, kind="list"):
    """kind: how the coalition argument is passed - the protocol declares Iterable[Coalition], so lists, tuples and
    one-shot iterables (generator, map, iter) must all behave the same."""
    C = M.mod("coalitions").Coalition
    g, view = arbitrary_state(M, n)
    ids = list(range(1 << n)) if coalitions is None else list(coalitions)

    class _Arg:
        """A fresh argument of the requested kind on every use."""
        def __get__(self, *_):
            if coalitions is None:
                return None
            if kind == "list":
                return [C(c) for c in ids]
            if kind == "tuple":
                return tuple(C(c) for c in ids)
            if kind == "generator":
                return (C(c) for c in ids)
            if kind == "map":
                return map(C, ids)
            return iter([C(c) for c in ids])

    class _Holder:
        arg = _Arg()
    H = _Holder()
    kv = g.get_known_values(H.arg)
    M.check("get_known_values.length", len(kv) == len(ids))
    for j, c in enumerate(ids):
        k, lo, up = view[c]
        M.check(f"get_known_values.nan_iff_unknown[{j}]", M.iff(M.is_nan(kv[j]), M.not_(k)))
        M.check(f"get_known_values.value[{j}]", M.implies(k, M.val(kv[j]) == lo))
    out = {}
    raised = M.expect_raises((ValueError,), lambda: out.__setitem__("v", g.get_values(H.arg)))
    M.check("get_values.raises_iff_some_unknown", M.iff(raised, M.not_(M.and_(*[view[c][0] for c in ids]))))
    if not raised:
        M.check("get_values.length", len(out["v"]) == len(ids))
        for j, c in enumerate(ids):
            M.check(f"get_values.value[{j}]", M.val(out["v"][j]) == view[c][1])
    ak = g.are_values_known(H.arg)
    lb = g.get_lower_bounds(H.arg)
    ub = g.get_upper_bounds(H.arg)
    iv = g.get_intervals(H.arg)
    for j, c in enumerate(ids):
        M.check(f"are_values_known[{j}]", M.iff(M.val(ak[j]), view[c][0]))
        M.check(f"get_lower_bounds[{j}]", M.val(lb[j]) == view[c][1])
        M.check(f"get_upper_bounds[{j}]", M.val(ub[j]) == view[c][2])
        M.check(f"get_intervals[{j}]", M.and_(M.val(iv[j][0]) == view[c][1], M.val(iv[j][1]) == view[c][2]))
    M.check("full", M.iff(M.val(g.full), M.and_(*[view[c][0] for c in range(1 << n)])))
    check_view(M, "bulk_getters.frame", read_view(M, g, n), view, n)


@scenario
def sc_game_bulk_set(M, n, op, coalitions=None, kind="list"):
    """set_values / set_known_values / set_upper_bounds / set_lower_bounds with a coalition list (distinct ids) or None."""
    C = M.mod("coalitions").Coalition
    np_ = M.mod("game").np
    g, view = arbitrary_state(M, n)
    ids = list(range(1 << n)) if coalitions is None else list(coalitions)
    arg = None if coalitions is None else [C(c) for c in ids]
    if arg is not None and kind == "generator":
        arg = (c for c in arg)
    elif arg is not None and kind == "map":
        arg = map(lambda c: c, arg)
    xs = [M.real(f"x{j}") for j in range(len(ids))]
    arr = np_.array(xs, dtype=np_.float64) if xs else np_.zeros(0)
    exp = dict(view)
    if op == "set_values":
        g.set_values(arr, arg)
        for j, c in enumerate(ids):
            exp[c] = (True, xs[j], xs[j])
    elif op == "set_known_values":
        g.set_known_values(xs, arg)
        exp = {c: (c == 0, M.const(0), M.const(0)) for c in range(1 << n)}
        for j, c in enumerate(ids):
            exp[c] = (True, xs[j], xs[j])
    elif op == "set_upper_bounds":
        g.set_upper_bounds(arr, arg)
        for j, c in enumerate(ids):
            k, lo, up = view[c]
            exp[c] = (k, lo, M.ite(k, up, xs[j]))
    elif op == "set_lower_bounds":
        g.set_lower_bounds(arr, arg)
        for j, c in enumerate(ids):
            k, lo, up = view[c]
            exp[c] = (k, M.ite(k, lo, xs[j]), up)
    got = read_view(M, g, n)
    for c in range(1 << n):
        M.check(f"{op}.known[{c}]", M.iff(got[c][0], exp[c][0]))
        M.check(f"{op}.lower[{c}]", got[c][1] == exp[c][1])
        M.check(f"{op}.upper[{c}]", got[c][2] == exp[c][2])
        if op in ("set_values", "set_known_values"):
            M.check(f"{op}.RI[{c}]", M.implies(got[c][0], got[c][1] == got[c][2]))
        else:
            # bulk bound setters never alter a known coalition
            M.check(f"{op}.known_untouched[{c}]", M.implies(view[c][0], M.and_(got[c][1] == view[c][1], got[c][2] == view[c][2])))


@scenario
def sc_game_algebra(M, n):
    """copy is independent; negation swaps and negates bounds, keeps knowledge, is an involution; ==; +."""
    C = M.mod("coalitions").Coalition
    g, view = arbitrary_state(M, n)
    cp = g.copy()
    check_view(M, "copy.equal", read_view(M, cp, n), view, n)
    M.check("copy.eq", M.val(g == cp))
    M.check("copy.shares_no_table", cp._values is not g._values and not M.mod("game").np.shares_memory(cp._values, g._values))
    M.check("copy.bounds_computer", cp._bounds_computer is g._bounds_computer and cp.number_of_players == n)
    y = M.real("y")
    cp.set_value(y, C(1))
    cp.unset_value(C(2 if n > 1 else 0))
    check_view(M, "copy.original_untouched", read_view(M, g, n), view, n)
    g2 = g.copy()
    g.set_value(y, C(1))
    v2 = read_view(M, g2, n)
    check_view(M, "copy.copy_untouched", v2, view, n)
    g.set_value(view[1][1], C(1)) if False else None
    # negation (on a fresh arbitrary state)
    h, hv = arbitrary_state(M, n, tag="h")
    ng = -h
    nv = read_view(M, ng, n)
    for c in range(1 << n):
        M.check(f"neg.known[{c}]", M.iff(nv[c][0], hv[c][0]))
        M.check(f"neg.lower[{c}]", nv[c][1] == -hv[c][2])
        M.check(f"neg.upper[{c}]", nv[c][2] == -hv[c][1])
    check_view(M, "neg.original_untouched", read_view(M, h, n), hv, n)
    check_view(M, "neg.involution", read_view(M, -ng, n), hv, n)
    M.check("neg.involution_eq", M.val((-ng) == h))
    # equality is equality of the whole table
    a, av = arbitrary_state(M, n, tag="a")
    same = M.and_(*[M.and_(M.iff(av[c][0], hv[c][0]), av[c][1] == hv[c][1], av[c][2] == hv[c][2]) for c in range(1 << n)])
    M.check("eq.iff_tables_equal", M.iff(M.val(a == h), same))


@scenario
def sc_game_add(M, n):
    game_m = M.mod("game")
    C = M.mod("coalitions").Coalition
    a = game_m.IncompleteCooperativeGame(n)
    b = game_m.IncompleteCooperativeGame(n)
    xs = [M.real(f"a{c}") for c in range(1 << n)]
    ys = [M.real(f"b{c}") for c in range(1 << n)]
    for c in range(1 << n):
        a.set_value(xs[c], C(c))
        b.set_value(ys[c], C(c))
    s = a + b
    sv = read_view(M, s, n)
    for c in range(1 << n):
        M.check(f"add[{c}]", M.and_(sv[c][0], sv[c][1] == xs[c] + ys[c], sv[c][2] == xs[c] + ys[c]))
    av = read_view(M, a, n)
    for c in range(1 << n):
        M.check(f"add.original_untouched[{c}]", M.and_(av[c][1] == xs[c], av[c][2] == xs[c]))
