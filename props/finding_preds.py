"""Named predicates used by known_findings.txt (where=pred:<name>) to identify a listed finding by its input."""
from fractions import Fraction


def _vals(inp):
    v = {}
    for k, x in inp.items():
        if k.startswith("v") and k[1:].isdigit():
            v[int(k[1:])] = Fraction(x) if isinstance(x, str) else Fraction(float(x))
    n = (max(v) + 1).bit_length() - 1 if v else 0
    return n, [v.get(c, Fraction(0)) for c in range(1 << n)]


def c15_near_additive(inp):
    """The game is additive up to the library's own superadditivity tolerance (rtol 1e-9): the surplus
    v(N) - sum_i v(i) is within 1e-9 * scale of zero, or the game violates exact superadditivity (it is only
    accepted through the tolerance)."""
    n, v = _vals(inp)
    if n < 2:
        return False
    scale = max(Fraction(1), max(abs(x) for x in v))
    surplus = v[-1] - sum(v[1 << i] for i in range(n))
    if abs(surplus) <= Fraction(4, 10**9) * scale:
        return True
    for u in range(1, 1 << n):
        s = (u - 1) & u
        while s:
            if v[s] + v[u ^ s] > v[u]:
                return True
            s = (s - 1) & u
    return False


PREDS = {"c15_near_additive": c15_near_additive}
