"""C07  More information never hurts: intervals shrink, every gap is non-increasing."""
from __future__ import annotations

from props import scenarios as S
from rt import gen
from spec.sets import minimal

LEVEL = "proof"


def lattice_check(run, n, computer, edges, monotone):
    """Bounded: reveal edges of the knowledge lattice on the real package; every interval shrinks and all four
    gap functions are non-increasing, non-negative, and zero at full knowledge."""
    from pyvc.mode import native_pkg
    P = native_pkg()
    game_m, bounds, co, model = P.mod("game"), P.mod("bounds"), P.mod("coalitions"), P.mod("run.model")
    gaps = model.GAP_FUNCTIONS
    mini = minimal(n)
    non_min = [c for c in range(1 << n) if c not in mini]
    evals = fails = 0
    for (v, K, s) in edges:
        g = game_m.IncompleteCooperativeGame(n, bounds.BOUNDS[computer])
        g.set_known_values([v[c] for c in K], [co.Coalition(c) for c in K])
        g.compute_bounds()
        lo0, up0 = g.get_lower_bounds().copy(), g.get_upper_bounds().copy()
        gap0 = {k: float(f(g)) for k, f in gaps.items()}
        g.reveal_value(v[s], co.Coalition(s))
        g.compute_bounds()
        lo1, up1 = g.get_lower_bounds(), g.get_upper_bounds()
        gap1 = {k: float(f(g)) for k, f in gaps.items()}
        scale = 1e-9 * max(1.0, max(abs(x) for x in v))
        ok = all(lo1[c] >= lo0[c] - scale and up1[c] <= up0[c] + scale for c in range(1 << n))
        ok = ok and all(gap1[k] <= gap0[k] + scale and gap1[k] >= -scale for k in gaps)
        evals += 1
        if not ok:
            fails += 1
            run._report_violation(f"lattice.{computer}[n={n}]/edge_shrinks", S.sc_reveal_shrinks,
                                  {"n": n, "computer": computer, "s": s}, gen.game_inputs(v, set(K), n), True,
                                  detail={"layer": "bounded", "gap_before": gap0, "gap_after": gap1})
            break
    # full knowledge: every gap is zero
    if edges:
        v = edges[0][0]
        g = game_m.IncompleteCooperativeGame(n, bounds.BOUNDS[computer])
        g.set_known_values(v, [co.Coalition(c) for c in range(1 << n)])
        g.compute_bounds()
        for k, f in gaps.items():
            evals += 1
            if abs(float(f(g))) > 1e-9 * max(1.0, max(abs(x) for x in v)):
                fails += 1
                run._report_violation(f"lattice.{computer}[n={n}]/zero_at_full[{k}]", S.sc_reveal_shrinks,
                                      {"n": n, "computer": computer, "s": 3}, {"v": v}, True, detail={"gap": float(f(g))})
    run.native_evals += evals
    run.native_distinct.update(("lattice", computer, n, j) for j in range(evals))
    return evals, fails


def lattice_path(run, n, computer, v, K, reveals):
    """One game object, recomputed after every reveal (stale tables are what the next computation starts from)."""
    from pyvc.mode import native_pkg
    P = native_pkg()
    game_m, bounds, co, model = P.mod("game"), P.mod("bounds"), P.mod("coalitions"), P.mod("run.model")
    gaps = model.GAP_FUNCTIONS
    g = game_m.IncompleteCooperativeGame(n, bounds.BOUNDS[computer])
    g.set_known_values([v[c] for c in K], [co.Coalition(c) for c in K])
    g.compute_bounds()
    evals = fails = 0
    for s in reveals:
        lo0, up0 = g.get_lower_bounds().copy(), g.get_upper_bounds().copy()
        gap0 = {k: float(f(g)) for k, f in gaps.items()}
        g.reveal_value(v[s], co.Coalition(s))
        g.compute_bounds()
        lo1, up1 = g.get_lower_bounds(), g.get_upper_bounds()
        gap1 = {k: float(f(g)) for k, f in gaps.items()}
        evals += 1
        ok = all(lo1[c] >= lo0[c] - 1e-9 and up1[c] <= up0[c] + 1e-9 for c in range(1 << n)) and all(gap1[k] <= gap0[k] + 1e-9 for k in gaps)
        if not ok:
            fails += 1
            run._report_violation(f"path.{computer}[n={n}]/edge_shrinks", S.sc_reveal_shrinks, {"n": n, "computer": computer, "s": s},
                                  gen.game_inputs(v, set(K), n), True, detail={"layer": "bounded", "revealed": s, "gap_before": gap0, "gap_after": gap1})
            break
    run.native_evals += evals
    run.native_distinct.update(("path", computer, n, tuple(K), j) for j in range(evals))
    return evals, fails


def edges_for(run, n, monotone, count, exhaustive):
    mini = set(minimal(n))
    non_min = [c for c in range(1 << n) if c not in mini]
    out = []
    if exhaustive:
        v = gen.superadditive_game(run.rng, n, kind="dyadic", monotone=monotone, negative=not monotone)
        for mask in range(1 << len(non_min)):
            K = mini | {non_min[j] for j in range(len(non_min)) if mask >> j & 1}
            for s in non_min:
                if s not in K:
                    out.append((v, sorted(K), s))
        return out
    for i in range(count):
        v = gen.superadditive_game(run.rng, n, kind=("int", "dyadic", "float")[i % 3], monotone=monotone,
                                   negative=(not monotone and i % 2 == 0))
        K = gen.knowledge(run.rng, n)
        unk = [c for c in non_min if c not in K]
        if unk and n <= 5:
            out.extend((v, sorted(K), s) for s in unk)       # every edge leaving this knowledge set
        elif unk:
            out.append((v, sorted(K), run.rng.choice(unk)))
    return out


def main(run):
    pkg = run.package()
    run.under_contract(pkg, "bounds", ["compute_bounds_superadditive", "compute_bounds_superadditive_cached", S.SAM_FN])
    run.under_contract(pkg, "norms", ["lp_norm"])
    run.under_contract(pkg, "exploitability", ["compute_exploitability"])
    run.under_contract(pkg, "game", ["IncompleteCooperativeGame.reveal_value"])
    quick = run.tier == "quick"
    for n in ((3, 4) if quick else (3, 4, 5)):
        non_min = [c for c in range(1 << n) if c not in minimal(n)]
        picks = non_min if n <= 4 else run.rng.sample(non_min, 6)
        for s in picks:
            run.prove(f"lemma.more_info[n={n},s={s}]", S.lem_more_info, {"n": n, "s": s}, lemma=True)
            for comp in ("superadditive", "superadditive_cached"):
                run.prove(f"shrinks.{comp}[n={n},s={s}]", S.sc_reveal_shrinks, {"n": n, "computer": comp, "s": s})
        sam_picks = non_min if n == 3 else run.rng.sample(non_min, 2 if quick else 4)
        if n <= 4:
            for s in sam_picks:
                run.prove(f"shrinks.sam_apx_1[n={n},s={s}]", S.sc_reveal_shrinks, {"n": n, "computer": "sam_apx_1", "s": s})
    # the SAM approximation for EVERY repetition count: relational invariant over the cut loop
    cut = S.sam_cut_package()
    for n in (3, 4):
        non_min = [c for c in range(1 << n) if c not in minimal(n)]
        for s in (non_min if n == 3 else run.rng.sample(non_min, 3 if quick else 10)):
            for mode in ("iter", "exit"):
                run.prove(f"shrinks.sam_all_counts.{mode}[n={n},s={s}]", S.sc_sam_shrinks_relational, {"n": n, "s": s, "mode": mode}, pkg=cut)
    if quick:
        # the smallest player count at which a split through mere bounds can beat a split into two known coalitions
        non_min5 = [c for c in range(32) if c not in minimal(5)]
        for s in run.rng.sample(non_min5, 5):
            run.prove(f"shrinks.superadditive_cached[n=5,s={s}]", S.sc_reveal_shrinks, {"n": 5, "computer": "superadditive_cached", "s": s})
        for s in run.rng.sample(non_min5, 2):
            run.prove(f"shrinks.superadditive[n=5,s={s}]", S.sc_reveal_shrinks, {"n": 5, "computer": "superadditive", "s": s})
    for n in ((2, 3, 4, 5) if quick else (2, 3, 4, 5, 6)):
        for gap in S.GAPS:
            for comp in ("superadditive", "superadditive_cached", "sam_apx_1", "sam_apx_1000"):
                if n <= 4:
                    run.prove(f"zero_at_full.{comp}.{gap}[n={n}]", S.sc_gap_zero_at_full_knowledge, {"n": n, "computer": comp, "gap": gap})
            run.prove(f"gap.{gap}[n={n}]", S.sc_gap_contract, {"n": n, "gap": gap})
            run.prove(f"lemma.gap.{gap}[n={n}]", S.lem_gap_monotone, {"n": n, "gap": gap}, lemma=True)
    run.discharge()
    rows = []
    for comp, mono in (("superadditive", False), ("superadditive_cached", False), ("sam_apx_1", True), ("sam_apx_10", True),
                       ("sam_apx_100", True), ("sam_apx_1000", True)):
        for n in (3, 4, 5, 6):
            if comp == "superadditive" and n == 6:
                continue
            if comp in ("sam_apx_100", "sam_apx_1000") and n > (3 if quick else 4):
                continue
            exhaustive = (n == 3) or (n == 4 and not quick and comp in ("superadditive_cached", "sam_apx_1"))
            count = (40 if n <= 5 else 6) if quick else 150
            e, f = lattice_check(run, n, comp, edges_for(run, n, mono, count, exhaustive), mono)
            rows.append({"computer": comp, "n": n, "edges": e, "failures": f, "exhaustive_lattice": exhaustive})
    # reveal paths on instances where the SAM repetitions matter (history-dependent early exits show only there)
    from rt import instances
    sens = 0
    for n, v, K, R in instances.repetition_sensitive(run.rng, 2 if quick else 8):
        for comp in ("sam_apx_1", "sam_apx_10"):
            known = list(K)
            edges = []
            for s in R:
                edges.append((v, sorted(known), s))
                known.append(s)
            e, f = lattice_path(run, n, comp, v, K, R)
            sens += e
    rows.append({"computer": "sam_apx_1/10", "n": "6,7", "edges": sens, "kind": "repetition-sensitive reveal paths on ONE game object"})
    run.bounded.append({"label": "knowledge-lattice edges on the real package", "rows": rows,
                        "bound": "every edge of the lattice for n=3 (n=4 in thorough), seeded edges above; all four gap functions; "
                                 "all registered computers with a game of the matching class; slack 1e-9*scale"})
    return run.finish(
        explanation="Spec-level lemma L_K<=L_K'<=v*<=U_K'<=U_K for every knowledge set and every revealed coalition; code-level "
                    "relational obligation (real computer before/after the real reveal_value) for both SA computers and "
                    "sam_apx_1; contracts of the four gap functions (which pin the ord of each partial) and monotonicity / "
                    "non-negativity / zero lemmas (l2 decomposed into termwise-square, sum and root steps). "
                    "SAM counts 10/100/1000 and float slack: bounded on the real package.")
