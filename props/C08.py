"""C08  Bounds depend only on current knowledge: idempotent, order-free, undoable."""
from __future__ import annotations

from props import scenarios as S
from rt import gen
from spec.sets import minimal

LEVEL = "proof"
ALL = ("superadditive", "superadditive_cached", "sam_apx_1", "sam_apx_10", "sam_apx_100", "sam_apx_1000")


def walk_check(run, n, computer, walks, steps):
    """Bounded: two independent random histories (set / reveal / un-reveal / bulk reset / compute) that end in the
    same knowledge give bit-identical tables; reveal-then-unreveal restores the table exactly. Games of ANY class."""
    import numpy as np
    from pyvc.mode import native_pkg
    P = native_pkg()
    game_m, bounds, co = P.mod("game"), P.mod("bounds"), P.mod("coalitions")
    mini = minimal(n)
    non_min = [c for c in range(1 << n) if c not in mini]
    evals = fails = 0
    sam = computer.startswith("sam")
    for w in range(walks):
        if sam:
            v = gen.superadditive_game(run.rng, n, kind="dyadic", monotone=True)
        else:
            v = [0.0] + [run.rng.randint(-8, 8) / 4.0 for _ in range((1 << n) - 1)]   # any class
        tables = []
        target = None
        for rep in range(2):
            g = game_m.IncompleteCooperativeGame(n, bounds.BOUNDS[computer])
            g.set_known_values([v[c] for c in mini], [co.Coalition(c) for c in mini])
            known = set(mini)
            hist = []
            for _ in range(steps):
                op = run.rng.choice(["reveal", "unreveal", "reset", "compute", "set", "stale"])
                unk = [c for c in non_min if c not in known]
                ext = [c for c in known if c not in mini]
                if op == "reveal" and unk:
                    c = run.rng.choice(unk); g.reveal_value(v[c], co.Coalition(c)); known.add(c)
                elif op == "set" and unk:
                    c = run.rng.choice(unk); g.set_value(v[c], co.Coalition(c)); known.add(c)
                elif op == "unreveal" and ext:
                    c = run.rng.choice(ext); g.unreveal_value(co.Coalition(c)); known.discard(c)
                elif op == "reset":
                    kp = sorted(gen.knowledge(run.rng, n)); g.set_known_values([v[c] for c in kp], [co.Coalition(c) for c in kp]); known = set(kp)
                elif op == "stale" and unk:
                    c = run.rng.choice(unk); g.set_lower_bound(float(run.rng.randint(-50, 50)), co.Coalition(c)); g.set_upper_bound(float(run.rng.randint(-50, 50)), co.Coalition(c))
                else:
                    g.compute_bounds()
                hist.append(op)
            # steer to the common target knowledge
            if target is None:
                target = set(known)
            for c in sorted(known - target):
                g.unreveal_value(co.Coalition(c))
            for c in sorted(target - known, reverse=(rep == 1)):
                g.reveal_value(v[c], co.Coalition(c))
            g.compute_bounds()
            t1 = g._values.copy()
            g.compute_bounds()
            evals += 1
            if not np.array_equal(t1, g._values):
                fails += 1
                run._report_violation(f"walk.{computer}[n={n}]/idempotent", S.sc_stale_independent, {"n": n, "computer": computer},
                                      {"v": v, "known": sorted(target), "history": hist}, True, detail={"layer": "bounded"})
                break
            unk = [c for c in non_min if c not in target]
            if unk:
                c = run.rng.choice(unk)
                g.reveal_value(v[c] + run.rng.choice([0.0, 1.0, -2.5]), co.Coalition(c)); g.compute_bounds()
                g.unreveal_value(co.Coalition(c)); g.compute_bounds()
                evals += 1
                if not np.array_equal(t1, g._values):
                    fails += 1
                    run._report_violation(f"walk.{computer}[n={n}]/undo", S.sc_reveal_undo, {"n": n, "computer": computer, "s": c},
                                          {"v": v, "known": sorted(target), "history": hist}, True, detail={"layer": "bounded"})
                    break
            tables.append(t1)
        if len(tables) == 2:
            evals += 1
            if not np.array_equal(tables[0], tables[1]):
                fails += 1
                run._report_violation(f"walk.{computer}[n={n}]/history_free", S.sc_stale_independent, {"n": n, "computer": computer},
                                      {"v": v, "known": sorted(target)}, True,
                                      detail={"layer": "bounded", "a": tables[0].tolist(), "b": tables[1].tolist()})
    run.native_evals += evals
    run.native_distinct.update(("walk", computer, n, j) for j in range(evals))
    return evals, fails


def main(run):
    pkg = run.package()
    run.under_contract(pkg, "bounds", ["compute_bounds_superadditive", "compute_bounds_superadditive_cached", S.SAM_FN])
    run.under_contract(pkg, "game", ["IncompleteCooperativeGame.reveal_value", "IncompleteCooperativeGame.unreveal_value",
                                     "IncompleteCooperativeGame.unset_value", "IncompleteCooperativeGame.set_value"])
    quick = run.tier == "quick"
    for n in ((2, 3, 4, 5) if quick else (2, 3, 4, 5, 6)):
        for comp in ("superadditive", "superadditive_cached"):
            run.prove(f"stale_free.{comp}[n={n}]", S.sc_stale_independent, {"n": n, "computer": comp, "twice": True})
    for n in (3, 4):
        for comp in ("sam_apx_1",) + (("sam_apx_10",) if n == 3 else ()):
            run.prove(f"stale_free.{comp}[n={n}]", S.sc_stale_independent, {"n": n, "computer": comp, "twice": True})
    for n in ((3, 4, 5) if quick else (3, 4, 5)):
        non_min = [c for c in range(1 << n) if c not in minimal(n)]
        picks = non_min if n <= 4 else run.rng.sample(non_min, 4 if quick else 10)
        for s in picks:
            for comp in ("superadditive", "superadditive_cached"):
                run.prove(f"undo.{comp}[n={n},s={s}]", S.sc_reveal_undo, {"n": n, "computer": comp, "s": s})
        if n <= 4:
            for s in (non_min if n == 3 else run.rng.sample(non_min, 2 if quick else 5)):
                run.prove(f"undo.sam_apx_1[n={n},s={s}]", S.sc_reveal_undo, {"n": n, "computer": "sam_apx_1", "s": s})
    # the SAM computer for EVERY repetition count: relational statement over the cut loop
    cut = S.sam_cut_package()
    for n in (3, 4):
        for mode in ("iter", "exit"):
            run.prove(f"stale_free.sam_all_counts.{mode}[n={n}]", S.sc_sam_stale_relational, {"n": n, "mode": mode}, pkg=cut)
    # environment level (4): step then unstep restores state, reward, steps_taken and the table
    from props import env_scenarios as E
    for n in (3,) if quick else (3, 4):
        acts = list(range((1 << n) - n - 2))
        for a in (acts if n == 3 else run.rng.sample(acts, 3)):
            run.prove(f"env.step_unstep[n={n},a={a}]", E.sc_env_step_unstep, {"n": n, "computer": "superadditive_cached",
                                                                            "gap": "exploitability", "action": a})
    # whole histories of step/unstep (also non-nested undo orders): the view depends on the current knowledge only
    hist = [h for L in (2, 3, 4) for h in E.all_histories(3, L)]
    if quick:
        hist = [h for h in hist if any(k == "u" for k, _ in h)]
    for h in hist:
        tag = "".join(f"{k}{j}" for k, j in h)
        run.prove(f"env.history[n=3,{tag}]", E.sc_env_history, {"n": 3, "computer": "superadditive_cached", "gap": "exploitability", "ops": h})
    for _ in range(3 if quick else 20):
        h, chosen = [], set()
        for _ in range(run.rng.randint(4, 6)):
            j = run.rng.randrange(10)
            h.append(["u" if j in chosen else "s", j])
            chosen ^= {j}
        tag = "".join(f"{k}{j}" for k, j in h)
        run.prove(f"env.history[n=4,{tag}]", E.sc_env_history, {"n": 4, "computer": "superadditive_cached", "gap": "l1_norm", "ops": h})
    run.discharge()
    rows = []
    for comp in ALL:
        for n in (3, 4, 5):
            if comp in ("sam_apx_100", "sam_apx_1000") and n > 3:
                continue
            e, f = walk_check(run, n, comp, 4 if quick else 25, 12)
            rows.append({"computer": comp, "n": n, "evaluations": e, "failures": f})
    # history-free on instances where the SAM repetitions matter: the table reached through a reveal path on ONE object
    # equals the table of a fresh object with the same knowledge
    import numpy as np
    from pyvc.mode import native_pkg
    from rt import instances
    P = native_pkg()
    game_m, bounds, co = P.mod("game"), P.mod("bounds"), P.mod("coalitions")
    for n, v, K, R in instances.repetition_sensitive(run.rng, 2 if quick else 8):
        for comp in ("sam_apx_1", "sam_apx_10"):
            g = game_m.IncompleteCooperativeGame(n, bounds.BOUNDS[comp])
            g.set_known_values([v[c] for c in K], [co.Coalition(c) for c in K])
            g.compute_bounds()
            known = list(K)
            for s in R:
                g.reveal_value(v[s], co.Coalition(s))
                g.compute_bounds()
                known.append(s)
                h = game_m.IncompleteCooperativeGame(n, bounds.BOUNDS[comp])
                ks = sorted(known)
                h.set_known_values([v[c] for c in ks], [co.Coalition(c) for c in ks])
                h.compute_bounds()
                run.native_evals += 1
                run.native_distinct.add(("sens", comp, n, tuple(ks)))
                if not np.array_equal(g._values, h._values):
                    run._report_violation(f"sensitive.{comp}[n={n}]/history_free", S.sc_stale_independent, {"n": n, "computer": comp},
                                          {"v": v, "known": ks, "revealed_last": s}, True,
                                          detail={"layer": "bounded", "kind": "table after a reveal path differs from the table of a fresh object with the same knowledge"})
                    break
    run.bounded.append({"label": "random operation walks on the real package (bit-equality of tables)", "rows": rows,
                        "bound": "seeded walks of 12 operations incl. stale-bound injection, two histories per target knowledge, all registered computers"})
    return run.finish(
        explanation="2-safety by self-composition: the real computer run on two pre-states with equal knowledge and independent "
                    "stale rows yields equal tables (every knowledge set, games of any class), a second run changes nothing, and "
                    "reveal(any x)/recompute/un-reveal/recompute restores the freshly computed table, for both SA computers per n "
                    "and sam_apx_1/sam_apx_10 unrolled; environment-level step/unstep restore. Higher SAM counts bounded.")
