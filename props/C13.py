"""C13  Built-in solvers pick valid actions by their rule and leave the env untouched."""
from __future__ import annotations

import itertools

from props import env_scenarios as E

LEVEL = "proof"
SOLVERS = ("greedy", "greedy_worst", "largest", "random")


def native_states(run, n, gen_key, computer, gap, states):
    """Bounded: real solvers on the real ICG_Gym at reachable states: valid action, rule, environment untouched."""
    import numpy as np
    from pyvc.mode import native_pkg
    P = native_pkg()
    model, solvers = P.mod("run.model"), P.mod("solvers")
    inst = model.ModelInstance(number_of_players=n, game_class=computer, game_generator=gen_key, gap_function=gap,
                               seed=run.rng.randrange(1 << 30))
    env = inst.get_env()
    m = len(env.explorable_coalitions)
    evals = 0
    for chosen in states:
        env.reset()
        for a in chosen:
            env.step(a)
        valid = [j for j in range(m) if j not in chosen]
        if not valid:
            continue
        rew = {}
        for j in valid:
            rew[j] = env.step(j)[1]
            env.unstep(j)
        held = env.incomplete_game          # what a caller holding the game object sees
        snap = (held._values.copy(), env.steps_taken, env.state.copy(), env.reward)
        for name in SOLVERS:
            evals += 1
            s = solvers.SOLVERS[name](inst)
            a = s.next_step(env)
            same = env.incomplete_game is held and np.array_equal(snap[0], held._values) and snap[1] == env.steps_taken \
                and np.array_equal(snap[2], env.state) and snap[3] == env.reward
            ok = a in valid and same
            if name == "greedy":
                ok = ok and rew[a] == max(rew.values()) and all(rew[j] < rew[a] for j in valid if j < a)
            elif name == "greedy_worst":
                ok = ok and rew[a] == min(rew.values()) and all(rew[j] > rew[a] for j in valid if j < a)
            elif name == "largest":
                sz = {j: len(env.explorable_coalitions[j]) for j in valid}
                ok = ok and sz[a] == max(sz.values()) and all(sz[j] < sz[a] for j in valid if j < a)
            if not ok:
                return evals, {"solver": name, "chosen": list(chosen), "action": int(a), "rewards": {int(k): float(v) for k, v in rew.items()},
                               "env_unchanged": bool(same), "generator": gen_key, "n": n}
    return evals, None


def native_expected_greedy(run, n, gen_key, steps, reps, procs, scale=1.0):
    """Bounded: expected-greedy vs the exhaustive optimum on the same sampled games (real Pool); `scale` books the
    game values in a small unit (absolute tolerances in the search then show)."""
    import numpy as np
    from pyvc.mode import native_pkg
    P = native_pkg()
    model, greedy, bs = P.mod("run.model"), P.mod("run.greedy"), P.mod("run.best_states")
    seed = run.rng.randrange(1 << 30)
    rows = {}
    for which in ("greedy", "best"):
        inst = model.ModelInstance(number_of_players=n, game_class="superadditive_cached", game_generator=gen_key, seed=seed)
        env = inst.get_env()
        if scale != 1.0:
            env.generator = _Scaled(env.generator, scale)
        if which == "greedy":
            rows[which] = greedy.get_greedy_rewards(env, steps, reps, inst.gap_function_callable, processes=procs)
        else:
            rows[which] = bs.get_best_exploitability(env, steps, reps, inst.gap_function_callable, processes=procs)
    g, seq = rows["greedy"]
    b, sets = rows["best"]
    gm, bm = g.mean(axis=1), b.mean(axis=1)
    tol = 1e-9 * max(scale, float(np.abs(g).max()))
    ok = len(set(seq)) == len(seq) == steps and all(gm[t + 1] <= gm[t] + tol for t in range(steps)) \
        and all(gm[t] >= bm[t] - tol for t in range(steps + 1)) and abs(gm[0] - bm[0]) <= tol and (steps < 1 or abs(gm[1] - bm[1]) <= tol)
    return None if ok else {"generator": gen_key, "n": n, "greedy_mean": gm.tolist(), "best_mean": bm.tolist(), "sequence": list(map(int, seq)),
                            "processes": procs}


class _Scaled:
    """A picklable generator wrapper: the hidden games of `gen`, values multiplied by `scale`."""

    def __init__(self, gen, scale):
        self.gen, self.scale = gen, scale

    def __call__(self, *a):
        g = self.gen(*a)
        g.set_values(g.get_values() * self.scale)
        return g


def main(run):
    pkg = E.solver_package()
    run.pkg = pkg
    run.under_contract(pkg, "solvers.greedy", ["GreedySolver._next_action_value", "GreedySolver.next_step"])
    run.under_contract(pkg, "solvers.largest_coalition", ["LargestSolver.next_step"])
    run.under_contract(pkg, "solvers.random", ["RandomSolver.next_step"])
    run.under_contract(pkg, "run.greedy", ["get_greedy_rewards"])
    run.inlined.update(["icg_gym.ICG_Gym step/unstep (real; contract C08(4)/C09)", "gameplay.* (real; C11)"])
    run.stubs_used.update(["random.Random.choice: SOME element (every outcome explored)", "multiprocessing.Pool.starmap (assumed contract A6)"])
    run.trusted.append("A6 multiprocessing.Pool.starmap(f, it) == [f(*deepcopy(a)) for a in it] in input order")
    quick = run.tier == "quick"
    expl3 = [3, 5, 6]
    for chosen in itertools.chain.from_iterable(itertools.combinations(expl3, k) for k in range(3)):
        for s in SOLVERS:
            run.prove(f"{s}[n=3,chosen={list(chosen)}]", E.sc_solver, {"n": 3, "solver": s, "chosen": list(chosen)}, pkg=pkg)
    expl4 = [3, 5, 6, 7, 9, 10, 11, 12, 13, 14]
    states4 = [[], [3], [7, 11, 13, 14, 3, 12], [3, 5, 6, 9, 10, 12, 7]] + ([] if quick else [run.rng.sample(expl4, k) for k in (2, 4, 5, 8)])
    for chosen in states4:
        for s, gap in (("greedy", "l1_norm"), ("greedy_worst", "exploitability"), ("largest", "exploitability"), ("random", "linf_norm")):
            run.prove(f"{s}[n=4,chosen={sorted(chosen)},{gap}]", E.sc_solver, {"n": 4, "solver": s, "chosen": sorted(chosen), "gap": gap}, pkg=pkg)
    # step budgets: the last allowed move must still obey the rule (every trial step reports done there)
    for chosen, budget in (([], 1), ([3], 2), ([7, 11, 13, 14, 3, 12], 7), ([5, 9], 3)):
        for s, gap in (("greedy", "l1_norm"), ("greedy_worst", "exploitability"), ("largest", "exploitability"), ("random", "linf_norm")):
            run.prove(f"{s}[n=4,chosen={sorted(chosen)},{gap},budget={budget}]", E.sc_solver,
                      {"n": 4, "solver": s, "chosen": sorted(chosen), "gap": gap, "budget": budget}, pkg=pkg)
    run.prove("expected_greedy[n=3,steps=3,reps=2]", E.sc_expected_greedy, {"n": 3, "max_steps": 3, "repetitions": 2}, pkg=pkg)
    run.prove("expected_greedy[n=4,steps=1,reps=1]", E.sc_expected_greedy, {"n": 4, "max_steps": 1, "repetitions": 1, "gap": "l1_norm"}, pkg=pkg)
    if not quick:
        run.prove_parallel("expected_greedy[n=4,steps=2,reps=1]", E.sc_expected_greedy, {"n": 4, "max_steps": 2, "repetitions": 1}, pkg=pkg)
        run.prove_parallel("expected_greedy[n=4,steps=1,reps=2]", E.sc_expected_greedy, {"n": 4, "max_steps": 1, "repetitions": 2}, pkg=pkg)
    run.discharge()
    rows = []
    for gk, comp, gap in (("noisy_factory", "superadditive_cached", "exploitability"), ("xos", "sam_apx_1", "l1_norm"),
                          ("graph", "superadditive_cached", "exploitability"), ("factory", "superadditive", "linf_norm")):
        for n in (3, 4, 5):
            m = (1 << n) - n - 2
            if n == 3:
                states = [list(p) for k in range(m) for p in itertools.permutations(range(m), k)]
            else:
                states = [run.rng.sample(range(m), run.rng.randint(0, m - 1)) for _ in range(4 if quick else 25)]
            e, w = native_states(run, n, gk, comp, gap, states)
            run.native_evals += e
            run.native_distinct.update(("st", gk, n, j) for j in range(e))
            rows.append({"generator": gk, "n": n, "solver_calls": e, "failure": w})
            if w:
                run._report_violation(f"native[{gk},n={n}]/{w['solver']}", E.sc_solver, {"n": n, "solver": w["solver"], "chosen": []}, w, True,
                                      detail={"layer": "bounded"})
    eg_rows = []
    for n, steps, reps in ((3, 3, 3), (4, 2, 2)) if quick else ((3, 3, 4), (4, 2, 3), (4, 3, 2)):
        for procs, scale in ((1, 1.0), (2, 1.0), (4, 1.0), (1, 1e-7), (2, 1e-7)):
            w = native_expected_greedy(run, n, "noisy_factory", steps, reps, procs, scale)
            run.native_evals += 1
            run.native_distinct.add(("eg", n, steps, reps, procs))
            eg_rows.append({"n": n, "steps": steps, "reps": reps, "processes": procs, "scale": scale, "failure": w})
            if w:
                run._report_violation(f"native.expected_greedy[n={n},p={procs}]/vs_exhaustive", E.sc_expected_greedy,
                                      {"n": n, "max_steps": steps, "repetitions": reps}, w, True, detail={"layer": "bounded"})
    run.bounded.append({"label": "real solvers on the real ICG_Gym; expected-greedy vs exhaustive optimum with the real Pool",
                        "rows": rows, "expected_greedy": eg_rows,
                        "bound": "every reachable state for n=3, seeded states n=4,5; process counts 1,2,4"})
    return run.finish(
        explanation="Each registered solver proved, at enumerated environment states with a symbolic hidden game (all states for n=3, "
                    "selected states for n=4): the action is valid, obeys the solver's rule with ties to the lowest index (greedy: "
                    "one-step rewards obtained through the real step/unstep pair), random returns some valid action (all outcomes), "
                    "and the environment's whole view is restored. Expected-greedy: no repeats, rows are the gaps after exactly the "
                    "prefix, each extension minimises the mean over ALL candidates, curve non-increasing.")
