"""Scenarios: contracts of repository functions written once, run symbolically (obligations)
and natively (replay, bounded stand-ins).  See pyvc/mode.py."""
from __future__ import annotations

from spec import games as G
from spec.sets import (by_size, members, minimal, popcount, proper_nonempty_subsets, splits,
                       strict_supersets, subsets, supersets)

REGISTRY = {}


def scenario(fn):
    REGISTRY[fn.__name__] = fn
    return fn


# ---------------------------------------------------------------------------------------------
# helpers shared by the bounds family

def declare_game(M, n, prefix="v", zero_normalised_empty=True):
    """Ghost complete game v* (v*(empty) = 0)."""
    return [M.const(0)] + [M.real(f"{prefix}{c}") for c in range(1, 1 << n)]


def make_incomplete(M, n, computer, v, tag="", all_known=None, stale=True, known=None):
    """An IncompleteCooperativeGame in an arbitrary state that agrees with v on its knowledge:
    minimal information known; every other coalition c known iff k_c (symbolic), unknown rows
    hold arbitrary (stale) bounds."""
    game_m = M.mod("game")
    bounds = M.mod("bounds")
    C = M.mod("coalitions").Coalition
    comp = bounds.BOUNDS[computer] if isinstance(computer, str) else computer
    g = game_m.IncompleteCooperativeGame(n, comp)
    mini = set(minimal(n))
    k = {}
    for c in range(1, 1 << n):
        if c in mini:
            g.set_value(v[c], C(c))
            k[c] = True
        else:
            k[c] = M.bool(f"k{c}") if known is None else known[c]
            if stale:
                lo, up = M.real(f"{tag}slo{c}"), M.real(f"{tag}sup{c}")
            else:
                lo, up = M.const(0), M.const(0)
            M.put_row(g, c, k[c], v[c], lo, up)
    k[0] = True
    return g, k


def table(M, g, n):
    lo = [M.val(x) for x in g.get_lower_bounds()]
    up = [M.val(x) for x in g.get_upper_bounds()]
    kn = [M.val(x) for x in g.are_values_known()]
    return kn, lo, up


CLASS_OF = {"superadditive": "sa", "superadditive_cached": "sa"}


def assume_class(M, n, v, computer):
    for c in G.superadditive(n, v):
        M.assume(c)
    if isinstance(computer, str) and computer.startswith("sam_apx"):
        for c in G.monotone_nonincreasing(n, v):
            M.assume(c)


# ---------------------------------------------------------------------------------------------
@scenario
def sc_sa_bounds(M, n, computer, functional=True, canary=False, only=None):
    """Contract of the superadditive bound computers (C01 + C02 functional form).

    requires  RI(game), minimal information known, superadditive(v*), known values = v*;
              rows of unknown coalitions arbitrary (stale)
    ensures   known' = known; lo' <= v* <= up'; lo' <= up'; known => lo' = up' = v*;
              lo' = L(known, v*), up' = U(known, v*, L); raises nothing."""
    v = declare_game(M, n)
    assume_class(M, n, v, computer)
    g, k = make_incomplete(M, n, computer, v)
    g.compute_bounds()
    kn, lo, up = table(M, g, n)
    L = G.lower_spec(M, n, k, v) if functional else None
    U = G.upper_spec(M, n, k, v, L) if functional else None
    for c in range(1 << n):
        if only is not None and c not in only:
            continue
        M.check(f"frame.known[{c}]", M.iff(kn[c], k[c]))
        M.check(f"contains[{c}]", M.and_(lo[c] <= v[c], v[c] <= up[c]))
        M.check(f"ordered[{c}]", lo[c] <= up[c])
        M.check(f"known_exact[{c}]", M.implies(k[c], M.and_(lo[c] == v[c], up[c] == v[c])))
        if functional:
            M.check(f"lower_is_L[{c}]", lo[c] == L[c])
            M.check(f"upper_is_U[{c}]", up[c] == U[c])
    if canary:
        # deliberately too strong: the lower bound of a non-minimal coalition equals its true value
        c = 3
        M.check("canary.lower_equals_value", lo[c] == v[c], canary=True)


@scenario
def sc_sa_equiv(M, n, a="superadditive", b="superadditive_cached"):
    """C03: both computers on the same arbitrary pre-state (no class assumption) give equal tables."""
    v = declare_game(M, n)
    ga, k = make_incomplete(M, n, a, v, tag="a")
    gb, _ = make_incomplete(M, n, b, v, tag="b", known=k)
    ga.compute_bounds()
    gb.compute_bounds()
    ka, la, ua = table(M, ga, n)
    kb, lb, ub = table(M, gb, n)
    for c in range(1 << n):
        M.check(f"same_known[{c}]", M.iff(ka[c], kb[c]))
        M.check(f"same_lower[{c}]", la[c] == lb[c])
        M.check(f"same_upper[{c}]", ua[c] == ub[c])


@scenario
def sc_stale_independent(M, n, computer, twice=False):
    """C08(1,2): the table after compute_bounds is a function of the knowledge alone: two
    pre-states with equal knowledge and independent stale rows give equal tables; running the
    computer a second time changes nothing.  No game-class assumption."""
    v = declare_game(M, n)
    g1, k = make_incomplete(M, n, computer, v, tag="a")
    g2, _ = make_incomplete(M, n, computer, v, tag="b", known=k)
    g1.compute_bounds()
    g2.compute_bounds()
    k1, l1, u1 = table(M, g1, n)
    k2, l2, u2 = table(M, g2, n)
    for c in range(1 << n):
        M.check(f"stale_free.lower[{c}]", l1[c] == l2[c])
        M.check(f"stale_free.upper[{c}]", u1[c] == u2[c])
    if twice:
        g1.compute_bounds()
        k3, l3, u3 = table(M, g1, n)
        for c in range(1 << n):
            M.check(f"idempotent.known[{c}]", M.iff(k1[c], k3[c]))
            M.check(f"idempotent.lower[{c}]", l1[c] == l3[c])
            M.check(f"idempotent.upper[{c}]", u1[c] == u3[c])


@scenario
def sc_reveal_undo(M, n, computer, s):
    """C08(3): reveal S with any value x, recompute, un-reveal S, recompute: the table is the
    freshly computed table of the original knowledge."""
    C = M.mod("coalitions").Coalition
    v = declare_game(M, n)
    g, k = make_incomplete(M, n, computer, v)
    M.assume(M.not_(k[s]))
    g.compute_bounds()
    k0, l0, u0 = table(M, g, n)
    x = M.real("x")
    g.reveal_value(x, C(s))
    g.compute_bounds()
    g.unreveal_value(C(s))
    g.compute_bounds()
    k1, l1, u1 = table(M, g, n)
    for c in range(1 << n):
        M.check(f"undo.known[{c}]", M.iff(k0[c], k1[c]))
        M.check(f"undo.lower[{c}]", l0[c] == l1[c])
        M.check(f"undo.upper[{c}]", u0[c] == u1[c])


@scenario
def sc_reveal_shrinks(M, n, computer, s):
    """C07 (code level): revealing the true value of an unknown S never widens any interval."""
    C = M.mod("coalitions").Coalition
    v = declare_game(M, n)
    assume_class(M, n, v, computer)
    g, k = make_incomplete(M, n, computer, v)
    M.assume(M.not_(k[s]))
    g.compute_bounds()
    k0, l0, u0 = table(M, g, n)
    g.reveal_value(v[s], C(s))
    g.compute_bounds()
    k1, l1, u1 = table(M, g, n)
    for c in range(1 << n):
        M.check(f"shrinks.lower[{c}]", l0[c] <= l1[c])
        M.check(f"shrinks.upper[{c}]", u1[c] <= u0[c])
        M.check(f"shrinks.contains[{c}]", M.and_(l1[c] <= v[c], v[c] <= u1[c]))
    M.check(f"shrinks.revealed_exact", M.and_(l1[s] == v[s], u1[s] == v[s]))


@scenario
def sc_agree_preserved(M, n, op, s=0, kprime=()):
    """C01 histories: Agree(game, v*) := RI and minimal known and known values = v* is preserved by
    reveal(v*(S), S), unreveal(S), bulk reset to K' (values of v*), and compute_bounds."""
    C = M.mod("coalitions").Coalition
    v = declare_game(M, n)
    assume_class(M, n, v, "superadditive")
    g, k = make_incomplete(M, n, "superadditive_cached", v)
    mini = set(minimal(n))
    exp = dict(k)
    if op == "reveal":
        M.assume(M.not_(k[s]))
        g.reveal_value(v[s], C(s))
        exp[s] = True
    elif op == "unreveal":
        M.assume(k[s])
        g.unreveal_value(C(s))
        exp[s] = False
    elif op == "reset":
        kp = sorted(set(kprime) | mini)
        g.set_known_values([v[c] for c in kp], [C(c) for c in kp])
        exp = {c: (c in kp) for c in range(1 << n)}
    elif op == "compute":
        g.compute_bounds()
    kn, lo, up = table(M, g, n)
    for c in range(1 << n):
        M.check(f"agree.known[{c}]", M.iff(kn[c], exp[c]))
        M.check(f"agree.value[{c}]", M.implies(exp[c], M.and_(lo[c] == v[c], up[c] == v[c])))


# ---------------------------------------------------------------------------------------------
# Ghost lemmas over the spec functions only (no repository code): they carry C02/C07 from the
# functional postcondition "table = L/U" to the property statement.

@scenario
def lem_tight(M, n):
    """(b) the lower game L is superadditive and agrees with the known values, so every lower bound is
    attained by a completion; (c) for every unknown S the lower game of the knowledge enlarged by
    (S, U(S)) is a completion taking the value U(S) at S, so every upper bound is attained;
    (a) L equals the explicit maximum over set partitions into known coalitions."""
    v = declare_game(M, n)
    for c in G.superadditive(n, v):
        M.assume(c)
    mini = set(minimal(n))
    k = {c: (True if c in mini else M.bool(f"k{c}")) for c in range(1 << n)}
    L = G.lower_spec(M, n, k, v)
    U = G.upper_spec(M, n, k, v, L)
    # (b)
    for i, cond in enumerate(G.superadditive(n, L)):
        M.check(f"L.superadditive[{i}]", cond)
    for c in range(1 << n):
        M.check(f"L.agrees[{c}]", M.implies(k[c], L[c] == v[c]))
        M.check(f"L.below_v[{c}]", L[c] <= v[c])
        M.check(f"U.above_v[{c}]", v[c] <= U[c])
    # (a)
    for c in range(1, 1 << n):
        cands = G.lower_spec_partitions(M, n, k, v, c)
        M.check(f"L.is_partition_max.upper[{c}]", M.and_(*[M.implies(ok, tot <= L[c]) for ok, tot in cands]))
        M.check(f"L.is_partition_max.attained[{c}]", M.or_(*[M.and_(ok, tot == L[c]) for ok, tot in cands]))


@scenario
def lem_tight_upper(M, n, s):
    """(c) for the unknown coalition s: W := lower game of (K + s, val + (s -> U(s))) is superadditive,
    agrees with every known value, and W(s) = U(s)."""
    v = declare_game(M, n)
    for c in G.superadditive(n, v):
        M.assume(c)
    mini = set(minimal(n))
    k = {c: (True if c in mini else M.bool(f"k{c}")) for c in range(1 << n)}
    M.assume(M.not_(k[s]))
    L = G.lower_spec(M, n, k, v)
    U = G.upper_spec(M, n, k, v, L)
    k2 = dict(k)
    k2[s] = True
    v2 = list(v)
    v2[s] = U[s]
    W = G.lower_spec(M, n, k2, v2)
    for i, cond in enumerate(G.superadditive(n, W)):
        M.check(f"W.superadditive[{i}]", cond)
    for c in range(1 << n):
        M.check(f"W.agrees[{c}]", M.implies(k[c], W[c] == v[c]))
    M.check("W.attains_upper", W[s] == U[s])


@scenario
def lem_more_info(M, n, s):
    """C07 spec level: K' = K + {s} with the true value: L_K <= L_K' <= v* <= U_K' <= U_K pointwise."""
    v = declare_game(M, n)
    for c in G.superadditive(n, v):
        M.assume(c)
    mini = set(minimal(n))
    k = {c: (True if c in mini else M.bool(f"k{c}")) for c in range(1 << n)}
    M.assume(M.not_(k[s]))
    L = G.lower_spec(M, n, k, v)
    U = G.upper_spec(M, n, k, v, L)
    k2 = dict(k)
    k2[s] = True
    L2 = G.lower_spec(M, n, k2, v)
    U2 = G.upper_spec(M, n, k2, v, L2)
    for c in range(1 << n):
        M.check(f"mono.lower[{c}]", M.and_(L[c] <= L2[c], L2[c] <= v[c]))
        M.check(f"mono.upper[{c}]", M.and_(v[c] <= U2[c], U2[c] <= U[c]))
