"""Scenarios: contracts of repository functions written once, run symbolically (obligations)
and natively (replay, bounded stand-ins).  See pyvc/mode.py."""
from __future__ import annotations

from spec import games as G
from spec.sets import (by_size, members, minimal, popcount, proper_nonempty_subsets, splits,
                       strict_supersets, subsets, supersets)

REGISTRY = {}


def scenario(fn):
    REGISTRY[fn.__name__] = fn
    return fn


# ---------------------------------------------------------------------------------------------
# helpers shared by the bounds family

def declare_game(M, n, prefix="v", zero_normalised_empty=True):
    """Ghost complete game v* (v*(empty) = 0)."""
    return [M.const(0)] + [M.real(f"{prefix}{c}") for c in range(1, 1 << n)]


def make_incomplete(M, n, computer, v, tag="", all_known=None, stale=True, known=None):
    """An IncompleteCooperativeGame in an arbitrary state that agrees with v on its knowledge:
    minimal information known; every other coalition c known iff k_c (symbolic), unknown rows
    hold arbitrary (stale) bounds."""
    game_m = M.mod("game")
    bounds = M.mod("bounds")
    C = M.mod("coalitions").Coalition
    comp = bounds.BOUNDS[computer] if isinstance(computer, str) else computer
    g = game_m.IncompleteCooperativeGame(n, comp)
    mini = set(minimal(n))
    k = {}
    for c in range(1, 1 << n):
        if c in mini:
            g.set_value(v[c], C(c))
            k[c] = True
        else:
            k[c] = M.bool(f"k{c}") if known is None else known[c]
            if stale:
                lo, up = M.real(f"{tag}slo{c}"), M.real(f"{tag}sup{c}")
            else:
                lo, up = M.const(0), M.const(0)
            M.put_row(g, c, k[c], v[c], lo, up)
    k[0] = True
    return g, k


def table(M, g, n):
    lo = [M.val(x) for x in g.get_lower_bounds()]
    up = [M.val(x) for x in g.get_upper_bounds()]
    kn = [M.val(x) for x in g.are_values_known()]
    return kn, lo, up


CLASS_OF = {"superadditive": "sa", "superadditive_cached": "sa"}


def assume_class(M, n, v, computer):
    for c in G.superadditive(n, v):
        M.assume(c)
    if isinstance(computer, str) and computer.startswith("sam_apx"):
        for c in G.monotone_nonincreasing(n, v):
            M.assume(c)


# ---------------------------------------------------------------------------------------------
@scenario
def sc_sa_bounds(M, n, computer, functional=True, canary=False, only=None):
    """Contract of the superadditive bound computers (C01 + C02 functional form).

    requires  RI(game), minimal information known, superadditive(v*), known values = v*;
              rows of unknown coalitions arbitrary (stale)
    ensures   known' = known; lo' <= v* <= up'; lo' <= up'; known => lo' = up' = v*;
              lo' = L(known, v*), up' = U(known, v*, L); raises nothing."""
    v = declare_game(M, n)
    assume_class(M, n, v, computer)
    g, k = make_incomplete(M, n, computer, v)
    g.compute_bounds()
    kn, lo, up = table(M, g, n)
    L = G.lower_spec(M, n, k, v) if functional else None
    U = G.upper_spec(M, n, k, v, L) if functional else None
    for c in range(1 << n):
        if only is not None and c not in only:
            continue
        M.check(f"frame.known[{c}]", M.iff(kn[c], k[c]))
        M.check(f"contains[{c}]", M.and_(lo[c] <= v[c], v[c] <= up[c]))
        M.check(f"ordered[{c}]", lo[c] <= up[c])
        M.check(f"known_exact[{c}]", M.implies(k[c], M.and_(lo[c] == v[c], up[c] == v[c])))
        if functional:
            M.check(f"lower_is_L[{c}]", lo[c] == L[c])
            M.check(f"upper_is_U[{c}]", up[c] == U[c])
    if canary:
        # deliberately too strong: the lower bound of a non-minimal coalition equals its true value
        c = 3
        M.check("canary.lower_equals_value", lo[c] == v[c], canary=True)


@scenario
def sc_sa_equiv(M, n, a="superadditive", b="superadditive_cached"):
    """C03: both computers on the same arbitrary pre-state (no class assumption) give equal tables."""
    v = declare_game(M, n)
    ga, k = make_incomplete(M, n, a, v, tag="a")
    gb, _ = make_incomplete(M, n, b, v, tag="b", known=k)
    ga.compute_bounds()
    gb.compute_bounds()
    ka, la, ua = table(M, ga, n)
    kb, lb, ub = table(M, gb, n)
    for c in range(1 << n):
        M.check(f"same_known[{c}]", M.iff(ka[c], kb[c]))
        M.check(f"same_lower[{c}]", la[c] == lb[c])
        M.check(f"same_upper[{c}]", ua[c] == ub[c])


@scenario
def sc_stale_independent(M, n, computer, twice=False):
    """C08(1,2): the table after compute_bounds is a function of the knowledge alone: two
    pre-states with equal knowledge and independent stale rows give equal tables; running the
    computer a second time changes nothing.  No game-class assumption."""
    v = declare_game(M, n)
    g1, k = make_incomplete(M, n, computer, v, tag="a")
    g2, _ = make_incomplete(M, n, computer, v, tag="b", known=k)
    g1.compute_bounds()
    g2.compute_bounds()
    k1, l1, u1 = table(M, g1, n)
    k2, l2, u2 = table(M, g2, n)
    for c in range(1 << n):
        M.check(f"stale_free.lower[{c}]", l1[c] == l2[c])
        M.check(f"stale_free.upper[{c}]", u1[c] == u2[c])
    if twice:
        g1.compute_bounds()
        k3, l3, u3 = table(M, g1, n)
        for c in range(1 << n):
            M.check(f"idempotent.known[{c}]", M.iff(k1[c], k3[c]))
            M.check(f"idempotent.lower[{c}]", l1[c] == l3[c])
            M.check(f"idempotent.upper[{c}]", u1[c] == u3[c])


@scenario
def sc_reveal_undo(M, n, computer, s):
    """C08(3): reveal S with any value x, recompute, un-reveal S, recompute: the table is the
    freshly computed table of the original knowledge."""
    C = M.mod("coalitions").Coalition
    v = declare_game(M, n)
    g, k = make_incomplete(M, n, computer, v)
    M.assume(M.not_(k[s]))
    g.compute_bounds()
    k0, l0, u0 = table(M, g, n)
    x = M.real("x")
    g.reveal_value(x, C(s))
    g.compute_bounds()
    g.unreveal_value(C(s))
    g.compute_bounds()
    k1, l1, u1 = table(M, g, n)
    for c in range(1 << n):
        M.check(f"undo.known[{c}]", M.iff(k0[c], k1[c]))
        M.check(f"undo.lower[{c}]", l0[c] == l1[c])
        M.check(f"undo.upper[{c}]", u0[c] == u1[c])


@scenario
def sc_reveal_shrinks(M, n, computer, s):
    """C07 (code level): revealing the true value of an unknown S never widens any interval."""
    C = M.mod("coalitions").Coalition
    v = declare_game(M, n)
    assume_class(M, n, v, computer)
    g, k = make_incomplete(M, n, computer, v)
    M.assume(M.not_(k[s]))
    g.compute_bounds()
    k0, l0, u0 = table(M, g, n)
    g.reveal_value(v[s], C(s))
    g.compute_bounds()
    k1, l1, u1 = table(M, g, n)
    for c in range(1 << n):
        M.check(f"shrinks.lower[{c}]", l0[c] <= l1[c])
        M.check(f"shrinks.upper[{c}]", u1[c] <= u0[c])
        M.check(f"shrinks.contains[{c}]", M.and_(l1[c] <= v[c], v[c] <= u1[c]))
    M.check(f"shrinks.revealed_exact", M.and_(l1[s] == v[s], u1[s] == v[s]))


@scenario
def sc_agree_preserved(M, n, op, s=0, kprime=()):
    """C01 histories: Agree(game, v*) := RI and minimal known and known values = v* is preserved by
    reveal(v*(S), S), unreveal(S), bulk reset to K' (values of v*), and compute_bounds."""
    C = M.mod("coalitions").Coalition
    v = declare_game(M, n)
    assume_class(M, n, v, "superadditive")
    g, k = make_incomplete(M, n, "superadditive_cached", v)
    mini = set(minimal(n))
    exp = dict(k)
    if op == "reveal":
        M.assume(M.not_(k[s]))
        g.reveal_value(v[s], C(s))
        exp[s] = True
    elif op == "unreveal":
        M.assume(k[s])
        g.unreveal_value(C(s))
        exp[s] = False
    elif op == "reset":
        kp = sorted(set(kprime) | mini)
        g.set_known_values([v[c] for c in kp], [C(c) for c in kp])
        exp = {c: (c in kp) for c in range(1 << n)}
    elif op == "compute":
        g.compute_bounds()
    kn, lo, up = table(M, g, n)
    for c in range(1 << n):
        M.check(f"agree.known[{c}]", M.iff(kn[c], exp[c]))
        M.check(f"agree.value[{c}]", M.implies(exp[c], M.and_(lo[c] == v[c], up[c] == v[c])))


@scenario
def sc_bounds_history(M, n, computer, ops):
    """A whole history on one game object (hidden game symbolic): ops are ['r', s] reveal the true value of s,
    ['u', s] un-reveal s, ['x', [ids]] bulk reset to minimal + ids, ['c'] recompute.  After every recompute the table
    is exactly (L, U) of the CURRENT knowledge - whatever happened between two recomputes."""
    C = M.mod("coalitions").Coalition
    game_m, bounds = M.mod("game"), M.mod("bounds")
    v = declare_game(M, n)
    assume_class(M, n, v, computer)
    g = game_m.IncompleteCooperativeGame(n, bounds.BOUNDS[computer])
    mini = minimal(n)
    g.set_known_values([v[c] for c in mini], [C(c) for c in mini])
    known = set(mini)
    for t, op in enumerate(ops):
        if op[0] == "r":
            g.reveal_value(v[op[1]], C(op[1]))
            known.add(op[1])
        elif op[0] == "u":
            g.unreveal_value(C(op[1]))
            known.discard(op[1])
        elif op[0] == "x":
            ks = sorted(set(mini) | set(op[1]))
            g.set_known_values([v[c] for c in ks], [C(c) for c in ks])
            known = set(ks)
        else:
            g.compute_bounds()
            k = {c: (c in known) for c in range(1 << n)}
            kn, lo, up = table(M, g, n)
            L = G.lower_spec(M, n, k, v)
            U = G.upper_spec(M, n, k, v, L)
            for c in range(1 << n):
                M.check(f"after[{t}].known[{c}]", M.iff(kn[c], k[c]))
                M.check(f"after[{t}].contains[{c}]", M.and_(lo[c] <= v[c], v[c] <= up[c]))
                M.check(f"after[{t}].table_is_LU[{c}]", M.and_(lo[c] == L[c], up[c] == U[c]))


# ---------------------------------------------------------------------------------------------
# Ghost lemmas over the spec functions only (no repository code): they carry C02/C07 from the
# functional postcondition "table = L/U" to the property statement.

@scenario
def lem_tight(M, n):
    """(b) the lower game L is superadditive and agrees with the known values, so every lower bound is
    attained by a completion; (c) for every unknown S the lower game of the knowledge enlarged by
    (S, U(S)) is a completion taking the value U(S) at S, so every upper bound is attained;
    (a) L equals the explicit maximum over set partitions into known coalitions."""
    v = declare_game(M, n)
    for c in G.superadditive(n, v):
        M.assume(c)
    mini = set(minimal(n))
    k = {c: (True if c in mini else M.bool(f"k{c}")) for c in range(1 << n)}
    L = G.lower_spec(M, n, k, v)
    U = G.upper_spec(M, n, k, v, L)
    # (b)
    for i, cond in enumerate(G.superadditive(n, L)):
        M.check(f"L.superadditive[{i}]", cond)
    for c in range(1 << n):
        M.check(f"L.agrees[{c}]", M.implies(k[c], L[c] == v[c]))
        M.check(f"L.below_v[{c}]", L[c] <= v[c])
        M.check(f"U.above_v[{c}]", v[c] <= U[c])
    # (a)
    for c in range(1, 1 << n):
        cands = G.lower_spec_partitions(M, n, k, v, c)
        M.check(f"L.is_partition_max.upper[{c}]", M.and_(*[M.implies(ok, tot <= L[c]) for ok, tot in cands]))
        M.check(f"L.is_partition_max.attained[{c}]", M.or_(*[M.and_(ok, tot == L[c]) for ok, tot in cands]))


@scenario
def lem_tight_upper(M, n, s):
    """(c) for the unknown coalition s: W := lower game of (K + s, val + (s -> U(s))) is superadditive,
    agrees with every known value, and W(s) = U(s)."""
    v = declare_game(M, n)
    for c in G.superadditive(n, v):
        M.assume(c)
    mini = set(minimal(n))
    k = {c: (True if c in mini else M.bool(f"k{c}")) for c in range(1 << n)}
    M.assume(M.not_(k[s]))
    L = G.lower_spec(M, n, k, v)
    U = G.upper_spec(M, n, k, v, L)
    k2 = dict(k)
    k2[s] = True
    v2 = list(v)
    v2[s] = U[s]
    W = G.lower_spec(M, n, k2, v2)
    for i, cond in enumerate(G.superadditive(n, W)):
        M.check(f"W.superadditive[{i}]", cond)
    for c in range(1 << n):
        M.check(f"W.agrees[{c}]", M.implies(k[c], W[c] == v[c]))
    M.check("W.attains_upper", W[s] == U[s])


@scenario
def lem_more_info(M, n, s):
    """C07 spec level: K' = K + {s} with the true value: L_K <= L_K' <= v* <= U_K' <= U_K pointwise."""
    v = declare_game(M, n)
    for c in G.superadditive(n, v):
        M.assume(c)
    mini = set(minimal(n))
    k = {c: (True if c in mini else M.bool(f"k{c}")) for c in range(1 << n)}
    M.assume(M.not_(k[s]))
    L = G.lower_spec(M, n, k, v)
    U = G.upper_spec(M, n, k, v, L)
    k2 = dict(k)
    k2[s] = True
    L2 = G.lower_spec(M, n, k2, v)
    U2 = G.upper_spec(M, n, k2, v, L2)
    for c in range(1 << n):
        M.check(f"mono.lower[{c}]", M.and_(L[c] <= L2[c], L2[c] <= v[c]))
        M.check(f"mono.upper[{c}]", M.and_(v[c] <= U2[c], U2[c] <= U[c]))


# ---------------------------------------------------------------------------------------------
# gap functions (C05, C07)
from spec import norms as NRM

GAPS = ("exploitability", "l1_norm", "l2_norm", "linf_norm")


def gap_function(M, name):
    """The gap function registered under `name` (run/model.py GAP_FUNCTIONS)."""
    return M.mod("run.model").GAP_FUNCTIONS[name]


def arbitrary_bounds_game(M, n, tag="", ordered=False):
    """A game object with arbitrary real lower/upper bounds (known flags irrelevant for gap functions
    except the grand coalition, which is known; the empty coalition has the interval [0,0])."""
    game_m = M.mod("game")
    C = M.mod("coalitions").Coalition
    g = game_m.IncompleteCooperativeGame(n)
    lo, up = [M.const(0)], [M.const(0)]
    full = (1 << n) - 1
    for c in range(1, 1 << n):
        if c == full:
            x = M.real(f"{tag}vN")
            g.set_value(x, C(c))
            lo.append(x)
            up.append(x)
            continue
        l, u = M.real(f"{tag}lo{c}"), M.real(f"{tag}up{c}")
        if ordered:
            M.assume(l <= u)
        M.put_row(g, c, False, 0, l, u)
        lo.append(l)
        up.append(u)
    return g, lo, up


@scenario
def sc_gap_contract(M, n, gap):
    """Contract of each offered gap function on an arbitrary bound table:
    l1 = sum |w|, linf = max |w|, l2 >= 0 and l2^2 = sum w^2, exploitability = sum_S w(S)/C(n,|S|),  w = up - lo."""
    g, lo, up = arbitrary_bounds_game(M, n)
    r = M.val(gap_function(M, gap)(g))
    w = NRM.widths(lo, up)
    if gap == "l1_norm":
        M.check("l1.is_sum_abs", r == NRM.l1(M, w))
    elif gap == "linf_norm":
        M.check("linf.is_max_abs", r == NRM.linf(M, w))
    elif gap == "l2_norm":
        M.check("l2.nonneg", r >= 0)
        M.check("l2.square_is_sumsq", r * r == NRM.sumsq(M, w))
    else:
        M.check("exploitability.is_binomial_gap", r == NRM.binomial_gap(M, n, w))


@scenario
def sc_gap_zero_at_full_knowledge(M, n, computer, gap):
    """Once every value is revealed (and bounds recomputed) every offered gap function is exactly zero."""
    C = M.mod("coalitions").Coalition
    v = declare_game(M, n)
    assume_class(M, n, v, computer)
    g, k = make_incomplete(M, n, computer, v, known={c: True for c in range(1 << n)})
    g.compute_bounds()
    r = M.val(gap_function(M, gap)(g))
    M.check(f"{gap}.zero_at_full_knowledge", r == 0)


@scenario
def lem_gap_monotone(M, n, gap):
    """0 <= w' <= w pointwise  =>  gap(w') <= gap(w);  gap(w) >= 0;  gap(0) = 0 (spec level)."""
    N = 1 << n
    w = [M.real(f"w{c}") for c in range(N)]
    w2 = [M.real(f"x{c}") for c in range(N)]
    for c in range(N):
        M.assume(M.and_(0 <= w2[c], w2[c] <= w[c]))
    zero = [M.const(0)] * N
    if gap == "l2_norm":
        # monotonicity of the Euclidean norm, decomposed into three small steps whose composition is
        # transitivity: (i) termwise 0<=x<=y => x^2<=y^2; (ii) sums are monotone (squares abstracted
        # by fresh s_c <= t_c); (iii) for r, r2 >= 0: r2^2 <= r^2 => r2 <= r.
        for c in range(N):
            M.check(f"l2.termwise[{c}]", w2[c] * w2[c] <= w[c] * w[c])
        s_ = [M.real(f"s{c}") for c in range(N)]
        t_ = [M.real(f"t{c}") for c in range(N)]
        M.check("l2.sum_monotone", M.implies(M.and_(*[a <= b for a, b in zip(s_, t_)]), M.sum_(s_) <= M.sum_(t_)))
        r, r2, A, B = M.real("r"), M.real("r2"), M.real("A"), M.real("B")
        M.check("l2.root_monotone", M.implies(M.and_(r >= 0, r2 >= 0, r * r == A, r2 * r2 == B, B <= A), r2 <= r))
        M.check("l2.zero", M.implies(M.and_(r >= 0, r * r == 0), r == 0))
        M.check("l2.zero_only_if_degenerate", M.implies(M.and_(r == 0, r * r == NRM.sumsq(M, w)), M.and_(*[x == 0 for x in w])))
        return
    f = {"l1_norm": lambda x: NRM.l1(M, x), "linf_norm": lambda x: NRM.linf(M, x),
         "exploitability": lambda x: NRM.binomial_gap(M, n, x)}[gap]
    M.check(f"{gap}.monotone", f(w2) <= f(w))
    M.check(f"{gap}.nonneg", f(w) >= 0)
    M.check(f"{gap}.zero", f(zero) == 0)
    M.check(f"{gap}.zero_only_if_degenerate", M.implies(f(w) == 0, M.and_(*[x == 0 for x in w])))


# ---------------------------------------------------------------------------------------------
# Shapley value and exploitability (C05, C06)
from spec import shapley as SH


def complete_game(M, n, v, computer=None):
    """A fully known IncompleteCooperativeGame holding the values v."""
    game_m = M.mod("game")
    g = game_m.IncompleteCooperativeGame(n) if computer is None else game_m.IncompleteCooperativeGame(n, computer)
    C = M.mod("coalitions").Coalition
    for c in range(1 << n):
        g.set_value(v[c], C(c))
    return g


@scenario
def sc_shapley(M, n, canary=False):
    """C06: for every real-valued complete game with v(empty)=0 and every player, both entry points return
    the average marginal contribution over the n! orderings; efficiency; null player."""
    sh = M.mod("shapley")
    v = declare_game(M, n)
    g = complete_game(M, n, v)
    allp = [M.val(x) for x in sh.compute_shapley_value(g)]
    M.check("all_players.length", len(allp) == n)
    phis = []
    for i in range(n):
        r = M.val(sh.compute_shapley_value_for_player(i, g))
        phis.append(r)
        M.check(f"is_ordering_average[{i}]", r == SH.shapley_by_orderings(M, n, v, i))
        M.check(f"entry_points_agree[{i}]", r == allp[i])
        null = M.and_(*[v[c | (1 << i)] == v[c] for c in range(1 << n) if not c >> i & 1])
        M.check(f"null_player[{i}]", M.implies(null, r == 0))
    M.check("efficiency", M.sum_(phis) == v[(1 << n) - 1])
    if canary:
        M.check("canary.equal_split", phis[0] == v[(1 << n) - 1] / M.const(n), canary=True)


@scenario
def sc_shapley_interleaved(M, n):
    """compute_shapley_value is a generator: consuming two of them in lock step (zip), or calling the single-player
    entry point for ANOTHER game between two next() calls, must not change what either of them yields."""
    sh = M.mod("shapley")
    v = declare_game(M, n, "v")
    w = declare_game(M, n, "w")
    gv, gw = complete_game(M, n, v), complete_game(M, n, w)
    pairs = list(zip(sh.compute_shapley_value(gv), sh.compute_shapley_value(gw)))
    M.check("zip.length", len(pairs) == n)
    for i, (a, b) in enumerate(pairs):
        M.check(f"zip.first[{i}]", M.val(a) == SH.shapley_by_orderings(M, n, v, i))
        M.check(f"zip.second[{i}]", M.val(b) == SH.shapley_by_orderings(M, n, w, i))
    it = sh.compute_shapley_value(gv)
    for i in range(n):
        a = M.val(next(it))
        other = M.val(sh.compute_shapley_value_for_player((i + 1) % n, gw))
        M.check(f"suspended.first[{i}]", a == SH.shapley_by_orderings(M, n, v, i))
        M.check(f"suspended.other[{i}]", other == SH.shapley_by_orderings(M, n, w, (i + 1) % n))


def _permute_coalition(c, a, b):
    """Swap players a and b in coalition c."""
    ba, bb = c >> a & 1, c >> b & 1
    if ba != bb:
        c ^= (1 << a) | (1 << b)
    return c


@scenario
def sc_shapley_algebra(M, n, a=0, b=1):
    """C06 consequences on the code's outputs: relabelling players a<->b permutes the values; linearity."""
    sh = M.mod("shapley")
    v = declare_game(M, n, "v")
    w = declare_game(M, n, "w")
    lam = M.real("lam")
    gv = complete_game(M, n, v)
    gperm = complete_game(M, n, [v[_permute_coalition(c, a, b)] for c in range(1 << n)])
    glin = complete_game(M, n, [lam * v[c] + w[c] for c in range(1 << n)])
    gw = complete_game(M, n, w)
    pv = [M.val(x) for x in sh.compute_shapley_value(gv)]
    pp = [M.val(x) for x in sh.compute_shapley_value(gperm)]
    pl = [M.val(x) for x in sh.compute_shapley_value(glin)]
    pw = [M.val(x) for x in sh.compute_shapley_value(gw)]
    for i in range(n):
        j = b if i == a else a if i == b else i
        M.check(f"relabel[{i}]", pp[i] == pv[j])
        M.check(f"linear[{i}]", pl[i] == lam * pv[i] + pw[i])


@scenario
def sc_exploitability(M, n, canary=False, history=False):
    """C05: for any bound table with known grand coalition (empty coalition [0,0]):
    result = sum_i shapley(maxgain_i)(i) - v(N) = sum_S (up(S)-lo(S))/C(n,|S|); MaxGainGame's two entry
    points equal the spec maxgain_i(S) = up(S) if i in S else lo(S).
    history: the process has used every other public entry point of the Shapley / exploitability modules before, on
    another game with the same number of players (tables memoised per player count must not be disturbed by it)."""
    ex = M.mod("exploitability")
    C = M.mod("coalitions").Coalition
    if history:
        sh = M.mod("shapley")
        other = complete_game(M, n, [M.const(bin(c).count("1") ** 2 + (c % 3)) for c in range(1 << n)])
        first = [M.val(x) for x in sh.compute_shapley_value(other)]
        M.val(sh.compute_shapley_value_for_player(n - 1, other))
        M.val(ex.compute_exploitability(other))
        again = [M.val(x) for x in sh.compute_shapley_value(other)]
        M.check("history.shapley_is_repeatable", M.and_(*[a == b for a, b in zip(first, again)]))
    g, lo, up = arbitrary_bounds_game(M, n)
    full = (1 << n) - 1
    r = M.val(ex.compute_exploitability(g))
    w = NRM.widths(lo, up)
    best = []
    for i in range(n):
        mg = [up[c] if c >> i & 1 else lo[c] for c in range(1 << n)]
        G_i = ex.MaxGainGame(g, i)
        vals = [M.val(x) for x in G_i.get_values()]
        some = [C(c) for c in range(1 << n) if c % 3 != 1]
        vals_some = [M.val(x) for x in G_i.get_values(some)]
        for c in range(1 << n):
            M.check(f"maxgain.get_values[{i},{c}]", vals[c] == mg[c])
            M.check(f"maxgain.get_value[{i},{c}]", M.val(G_i.get_value(C(c))) == mg[c])
        for x, cc in zip(vals_some, some):
            M.check(f"maxgain.get_values_subset[{i},{cc.id}]", x == mg[cc.id])
        best.append(SH.shapley_by_orderings(M, n, mg, i))
    M.check("is_summed_best_shapley", r == M.sum_(best) - up[full])
    M.check("is_binomial_gap", r == NRM.binomial_gap(M, n, w))
    ordered = M.and_(*[lo[c] <= up[c] for c in range(1 << n)])
    M.check("nonneg_if_ordered", M.implies(ordered, r >= 0))
    M.check("zero_iff_degenerate", M.implies(ordered, M.iff(r == 0, M.and_(*[x == 0 for x in w]))))
    if canary:
        M.check("canary.is_l1", r == NRM.l1(M, w), canary=True)


@scenario
def sc_exploitability_dominates(M, n, i):
    """C05 domination: for every completion w inside the box and player i, the code's Shapley value of i in w
    never exceeds the code's Shapley value of i in the max-gain game used by compute_exploitability."""
    ex = M.mod("exploitability")
    sh = M.mod("shapley")
    g, lo, up = arbitrary_bounds_game(M, n)
    w = [M.const(0)] + [M.real(f"w{c}") for c in range(1, 1 << n)]
    for c in range(1 << n):
        M.assume(M.and_(lo[c] <= w[c], w[c] <= up[c]))
    gw = complete_game(M, n, w)
    phi_w = M.val(sh.compute_shapley_value_for_player(i, gw))
    G_i = ex.MaxGainGame(g, i)
    phi_max = M.val(sh.compute_shapley_value_for_player(i, G_i))
    M.check(f"dominated[{i}]", phi_w <= phi_max)


# ---------------------------------------------------------------------------------------------
# approximate superadditive-monotone bounds (C04)

SAM_FN = "compute_bounds_superadditive_monotone_approx_cached"


def sam_cut_package():
    """The repository loaded with the outer loop of the SAM computer cut by its invariant."""
    from pyvc import loader, loopcut
    rt = loopcut.CutRuntime()
    pkg = loader.Package(loopcuts={"bounds": [(SAM_FN, 0, "sam.outer")]},
                         inject={"bounds": {"range": loopcut.sym_range}}, vc_runtime=rt)
    pkg.cut_runtime = rt
    return pkg


def sam_post(M, n, k, v, kn, lo, up, L, U, tag=""):
    for c in range(1 << n):
        M.check(f"{tag}frame.known[{c}]", M.iff(kn[c], k[c]))
        M.check(f"{tag}contains[{c}]", M.and_(lo[c] <= v[c], v[c] <= up[c]))
        M.check(f"{tag}known_exact[{c}]", M.implies(k[c], M.and_(lo[c] == v[c], up[c] == v[c])))
        M.check(f"{tag}not_looser_than_sa[{c}]", M.and_(lo[c] >= L[c], up[c] <= U[c]))
        for i in range(n):
            if c >> i & 1:
                M.check(f"{tag}lower_monotone[{c ^ (1 << i)}>={c}]", lo[c ^ (1 << i)] >= lo[c])
        subs_ok = [M.implies(k[a], up[c] <= v[a]) for a in proper_nonempty_subsets(c)]
        sups_ok = [M.implies(k[t], up[c] <= v[t] - lo[t ^ c]) for t in strict_supersets(c, n)]
        if c:
            M.check(f"{tag}upper_consistent[{c}]", M.and_(*(subs_ok + sups_ok)))


@scenario
def sc_sam(M, n, reps, canary=False):
    """Contract of the SAM approximation for a concrete repetition count (loop unrolled)."""
    bounds = M.mod("bounds")
    from functools import partial
    v = declare_game(M, n)
    assume_class(M, n, v, "sam_apx")
    comp = partial(getattr(bounds, SAM_FN), repetitions=reps)
    g, k = make_incomplete(M, n, comp, v)
    g.compute_bounds()
    kn, lo, up = table(M, g, n)
    L = G.lower_spec(M, n, k, v)
    U = G.upper_spec(M, n, k, v, L)
    sam_post(M, n, k, v, kn, lo, up, L, U)
    if canary:
        M.check("canary.equals_sa_lower", lo[3] == L[3], canary=True)


@scenario
def sc_sam_registry(M, n, key):
    """The registered partial `key` (sam_apx_<r>) is the SAM computer with repetitions = r."""
    bounds = M.mod("bounds")
    r = int(key.rsplit("_", 1)[1])
    f = bounds.BOUNDS[key]
    M.check("registry.func", getattr(f, "func", None) is getattr(bounds, SAM_FN))
    M.check("registry.repetitions", getattr(f, "keywords", {}) == {"repetitions": r} and not getattr(f, "args", ()))


@scenario
def sc_sam_more_reps(M, n, reps):
    """Raising the repetition count never loosens: r vs r+1 on the same pre-state (unrolled)."""
    bounds = M.mod("bounds")
    from functools import partial
    v = declare_game(M, n)
    assume_class(M, n, v, "sam_apx")
    g1, k = make_incomplete(M, n, partial(getattr(bounds, SAM_FN), repetitions=reps), v, tag="a")
    g2, _ = make_incomplete(M, n, partial(getattr(bounds, SAM_FN), repetitions=reps + 1), v, tag="b", known=k)
    g1.compute_bounds()
    g2.compute_bounds()
    _, l1, u1 = table(M, g1, n)
    _, l2, u2 = table(M, g2, n)
    for c in range(1 << n):
        M.check(f"more_reps.lower[{c}]", l1[c] <= l2[c])
        M.check(f"more_reps.upper[{c}]", u2[c] <= u1[c])


@scenario
def sc_sam_cut(M, n, mode="exit"):
    """The SAM computer for EVERY repetition count: outer loop cut by the invariant
        Inv(i) := known flags and known rows unchanged, upper column unchanged, and
                  (i >= 1  =>  for all C: L(C) <= lo(C) <= v*(C) and lo non-increasing along inclusion).
    Nothing is assumed about stale rows at i = 0.  Natively: runs the real function with the given count."""
    bounds = M.mod("bounds")
    C = M.mod("coalitions").Coalition
    v = declare_game(M, n)
    assume_class(M, n, v, "sam_apx")
    reps = M.int("reps", lo=0)
    mini = set(minimal(n))
    from functools import partial
    g, k = make_incomplete(M, n, None, v)
    L = G.lower_spec(M, n, k, v)
    U = G.upper_spec(M, n, k, v, L)
    if M.symbolic:
        rt = M.pkg.cut_runtime
        rt.mode = mode
        up0 = [g._values[c, 2] for c in range(1 << n)]
        kn0 = [g._values[c, 0] for c in range(1 << n)]
        cnt = [0]

        def havoc(loc, why):
            gg = loc["game"]
            cnt[0] += 1
            for c in range(1 << n):
                if c not in mini:
                    gg._values[c, 1] = M.ite(k[c], v[c], M.real(f"h{cnt[0]}.{why}.lo{c}"))

        def inv(loc, i):
            gg = loc["game"]
            lo = [gg._values[c, 1] for c in range(1 << n)]
            known_rows = M.and_(*[M.implies(k[c], lo[c] == v[c]) for c in range(1 << n)])
            sound = M.and_(*[M.and_(L[c] <= lo[c], lo[c] <= v[c]) for c in range(1 << n)])
            mono = M.and_(*[lo[u ^ (1 << j)] >= lo[u] for u in range(1, 1 << n) for j in range(n) if u >> j & 1])
            return M.and_(known_rows, M.implies(i >= 1, M.and_(sound, mono)))

        def frame(loc):
            gg = loc["game"]
            return ([gg._values[c, 0] for c in range(1 << n)], [gg._values[c, 2] for c in range(1 << n)],
                    [gg._values[c, 1] for c in range(1 << n)])

        def frame_ok(snap, loc):
            gg = loc["game"]
            f0, f2, f1 = snap
            conds = []
            for c in range(1 << n):
                conds.append(gg._values[c, 0] == f0[c])
                conds.append(gg._values[c, 2] == f2[c])
                if c in mini:
                    conds.append(gg._values[c, 1] == f1[c])
            return M.and_(*conds)

        def variant(loc, i):
            # the body is inflationary once the invariant's i >= 1 part holds (never loosens with the count)
            gg = loc["game"]
            pre = rt.snap[2]
            return [(f"inflationary[{c}]", M.implies(i >= 1, gg._values[c, 1] >= pre[c])) for c in range(1 << n)]

        rt.spec["sam.outer"] = {"inv": inv, "havoc": havoc, "frame": frame, "frame_ok": frame_ok, "variant": variant}
    getattr(bounds, SAM_FN)(g, reps)
    kn, lo, up = table(M, g, n)
    sam_post(M, n, k, v, kn, lo, up, L, U, tag="post.")


@scenario
def sc_sam_final_antitone(M, n):
    """The final upper pass is antitone in the lower table: from lo1 <= lo2 pointwise (same knowledge),
    up2 <= up1.  With 'the body is inflationary' this gives: r+1 repetitions never looser than r.
    Checked on the cut program's exit path run twice with independently havoced lower tables."""
    if not M.symbolic:
        return          # a statement about the cut program only; the native layer has nothing to replay
    bounds = M.mod("bounds")
    v = declare_game(M, n)
    assume_class(M, n, v, "sam_apx")
    reps = M.int("reps", lo=0)
    mini = set(minimal(n))
    g1, k = make_incomplete(M, n, None, v, tag="a")
    g2, _ = make_incomplete(M, n, None, v, tag="b", known=k)
    rt = M.pkg.cut_runtime
    rt.mode = "exit"
    lows = {}

    def mk(tag):
        def havoc(loc, why):
            gg = loc["game"]
            for c in range(1 << n):
                if c not in mini:
                    gg._values[c, 1] = M.ite(k[c], v[c], M.real(f"{tag}.lo{c}"))
            lows[tag] = [gg._values[c, 1] for c in range(1 << n)]
        return havoc

    true_inv = lambda loc, i: M.and_()
    rt.spec["sam.outer"] = {"inv": true_inv, "havoc": mk("one")}
    getattr(bounds, SAM_FN)(g1, reps)
    rt.spec["sam.outer"] = {"inv": true_inv, "havoc": mk("two")}
    getattr(bounds, SAM_FN)(g2, reps)
    if "one" not in lows or "two" not in lows:
        return          # the loop was not entered on this path (zero iterations): nothing to compare
    for c in range(1 << n):
        M.assume(lows["one"][c] <= lows["two"][c])
    _, l1, u1 = table(M, g1, n)
    _, l2, u2 = table(M, g2, n)
    for c in range(1 << n):
        M.check(f"final_pass.antitone[{c}]", u2[c] <= u1[c])
        M.check(f"final_pass.keeps_lower[{c}]", M.and_(l1[c] == lows["one"][c], l2[c] == lows["two"][c]))


@scenario
def sc_sam_stale_relational(M, n, mode="iter"):
    """C08 for the SAM computer and EVERY repetition count, as a relational statement over the cut loop: two runs on
    pre-states with equal knowledge and independent stale rows (a) take the same control decisions (enter another
    iteration / leave the loop), (b) after an arbitrary iteration that starts from EQUAL lower tables (i >= 1) or from
    the two different entry states (i = 0) have equal lower tables, (c) after the loop end in equal tables.  By
    induction the result is a function of the knowledge alone."""
    if not M.symbolic:
        return
    from pyvc.core import StopPath
    bounds = M.mod("bounds")
    v = declare_game(M, n)
    assume_class(M, n, v, "sam_apx")
    reps = M.int("reps", lo=0)
    mini = set(minimal(n))
    gA, k = make_incomplete(M, n, None, v, tag="a")
    gB, _ = make_incomplete(M, n, None, v, tag="b", known=k)
    rt = M.pkg.cut_runtime
    rt.mode = mode

    def havoc(loc, why):
        gg = loc["game"]
        for c in range(1 << n):
            if c not in mini:
                gg._values[c, 1] = M.ite(k[c], v[c], M.real(f"rel.{why}.lo{c}"))      # the SAME symbols in both runs

    rt.spec["sam.outer"] = {"inv": (lambda loc, i: M.and_()), "havoc": havoc}
    ends, tabs = [], []
    for g in (gA, gB):
        try:
            getattr(bounds, SAM_FN)(g, reps)
            ends.append("left_the_loop")
        except StopPath:
            ends.append("next_iteration")
        tabs.append(table(M, g, n))
    M.check("same_control_decision", ends[0] == ends[1], decisions=str(ends))
    (ka, la, ua), (kb, lb, ub) = tabs
    for c in range(1 << n):
        M.check(f"rel.lower[{c}]", la[c] == lb[c])
        if ends == ["left_the_loop", "left_the_loop"]:
            M.check(f"rel.upper[{c}]", ua[c] == ub[c])
            M.check(f"rel.known[{c}]", M.iff(ka[c], kb[c]))


@scenario
def sc_sam_shrinks_relational(M, n, s, mode="iter"):
    """C07 for the SAM computer and EVERY repetition count: run A on knowledge K (s unknown), run B on K + {s -> v*(s)};
    relational invariant over the cut loop  Inv(i >= 1) := lowerA <= lowerB <= v*  pointwise.  Obligations: same control
    decisions; the invariant is established by iteration 0 from arbitrary stale rows and preserved by every later
    iteration; after the loop lowerA <= lowerB and upperB <= upperA (no interval widens)."""
    if not M.symbolic:
        return
    from pyvc.core import StopPath
    bounds = M.mod("bounds")
    v = declare_game(M, n)
    assume_class(M, n, v, "sam_apx")
    reps = M.int("reps", lo=0)
    mini = set(minimal(n))
    gA, k = make_incomplete(M, n, None, v, tag="a")
    M.assume(M.not_(k[s]))
    kB = dict(k)
    kB[s] = True
    gB, _ = make_incomplete(M, n, None, v, tag="b", known=kB)
    rt = M.pkg.cut_runtime
    rt.mode = mode
    lows = {}

    def mk(tag, kk):
        def havoc(loc, why):
            gg = loc["game"]
            for c in range(1 << n):
                if c not in mini:
                    gg._values[c, 1] = M.ite(kk[c], v[c], M.real(f"rel{tag}.{why}.lo{c}"))
            lows[tag] = [gg._values[c, 1] for c in range(1 << n)]
            if tag == "B" and "A" in lows:
                for c in range(1 << n):
                    M.assume(M.and_(lows["A"][c] <= lows["B"][c], lows["B"][c] <= v[c]))
        return havoc

    ends, tabs = [], []
    for tag, g, kk in (("A", gA, k), ("B", gB, kB)):
        rt.spec["sam.outer"] = {"inv": (lambda loc, i: M.and_()), "havoc": mk(tag, kk)}
        try:
            getattr(bounds, SAM_FN)(g, reps)
            ends.append("left_the_loop")
        except StopPath:
            ends.append("next_iteration")
        tabs.append(table(M, g, n))
    M.check("same_control_decision", ends[0] == ends[1], decisions=str(ends))
    (_, la, ua), (_, lb, ub) = tabs
    for c in range(1 << n):
        M.check(f"rel.lowerA_le_lowerB[{c}]", la[c] <= lb[c])
        M.check(f"rel.lowerB_sound[{c}]", lb[c] <= v[c])
        if ends == ["left_the_loop", "left_the_loop"]:
            M.check(f"rel.upperB_le_upperA[{c}]", ub[c] <= ua[c])
