"""C16  The size-aggregated environment is a faithful abstraction of the full one."""
from __future__ import annotations

from props import env_scenarios as E

LEVEL = "proof"


def native_runs(run, n, gen_key, computer, count, ask_mask=True):
    """Bounded: the real classes along sequences of allowed sizes until done, random tie-breaks (np.random seeded).
    ask_mask=False: the caller never asks the linear environment for its mask between steps (the allowed sizes are
    worked out from the inner environment) - a step must not rely on the caller having done so."""
    import numpy as np
    from pyvc.mode import native_pkg
    P = native_pkg()
    model = P.mod("run.model")
    evals = 0
    for i in range(count):
        inst = model.ModelInstance(number_of_players=n, game_class=computer, game_generator=gen_key, linear=True,
                                   seed=run.rng.randrange(1 << 30))
        lin = inst.get_env()
        np.random.seed(run.rng.randrange(1 << 30))
        obs, info = lin.reset()
        inner = lin.icg_gym
        sizes = np.array([len(c) for c in inner.explorable_coalitions])
        for _ in range(len(sizes) + 2):
            evals += 1
            m_in = inner.action_masks()
            exp_mask = np.array([bool(((sizes == s) & m_in).any()) for s in range(n)])
            exp_obs = np.array([inner.state[sizes == s].sum() for s in range(n)])
            if not ((not ask_mask or np.array_equal(lin.action_masks(), exp_mask)) and np.allclose(lin.state, exp_obs, rtol=1e-12, atol=1e-12)
                    and len(obs) == n and np.allclose(obs, exp_obs, rtol=1e-12, atol=1e-12)):
                return evals, {"generator": gen_key, "n": n, "what": "mask/observation", "mask": lin.action_masks().tolist(), "expected": exp_mask.tolist()}
            if inner.done or not exp_mask.any():
                break
            s = int(run.rng.choice([k for k in range(n) if exp_mask[k]]))
            before = m_in.copy()
            try:
                obs, rew, done, trunc, info = lin.step(s)
            except Exception as e:
                return evals, {"generator": gen_key, "n": n, "what": "step with an allowed size raised", "size": s,
                               "error": f"{type(e).__name__}: {e}", "mask_asked_between_steps": ask_mask}
            after = inner.action_masks()
            flipped = [j for j in range(len(sizes)) if before[j] and not after[j]]
            ok = len(flipped) == 1 and sizes[flipped[0]] == s and info == {"chosen_coalition": inner.explorable_coalitions[flipped[0]].id} \
                and rew == inner.reward and done == inner.done and trunc is False
            if not ok:
                return evals, {"generator": gen_key, "n": n, "what": "step", "size": s, "flipped": flipped, "info": info}
    return evals, None


def main(run):
    pkg = E.solver_package()
    run.pkg = pkg
    run.under_contract(pkg, "icg_gym_linear", ["ICG_Gym_Linear.__init__", "ICG_Gym_Linear._sum_values_of_the_same_size",
                                               "ICG_Gym_Linear.action_masks", "ICG_Gym_Linear.reset", "ICG_Gym_Linear.state",
                                               "ICG_Gym_Linear.step", "ICG_Gym_Linear.done", "ICG_Gym_Linear.reward"])
    run.inlined.update(["icg_gym.ICG_Gym (real class; C09)", "bounds / game / gap functions (real)"])
    run.stubs_used.update(["np.random.choice: SOME element of the (symbolically guarded) candidate array; every candidate explored",
                           "gymnasium.Env / spaces"])
    quick = run.tier == "quick"
    # n = 5 was tried in the thorough tier: the path tree of one size does not finish within 30 minutes on 16 cores
    # (every tie-break x every fork of the bound computers); n = 5, 6 stay with the bounded layer
    combos = [(3, "exploitability", None), (4, "l1_norm", None), (4, "exploitability", 3)] + ([] if quick else [(4, "linf_norm", 2), (3, "l2_norm", None)])
    for n, gap, budget in combos:
        for size in range(2, n):
            f = run.prove if n <= 4 else run.prove_parallel
            f(f"linear[n={n},size={size},{gap},b={budget}]", E.sc_linear_env, {"n": n, "size": size, "gap": gap, "budget": budget}, pkg=pkg)
        run.prove(f"reset[n={n},{gap}]", E.sc_linear_reset, {"n": n, "gap": gap}, pkg=pkg)
    # the mask was queried in an arbitrary state before reset (a wrapper-side copy of it must not survive the reset)
    run.prove("reset.asked_before[n=3]", E.sc_linear_reset, {"n": 3, "gap": "l1_norm", "asked_before": True}, pkg=pkg)
    run.prove("reset.asked_before[n=4]", E.sc_linear_reset, {"n": 4, "gap": "l1_norm", "asked_before": True}, pkg=pkg)
    # hidden games of ANY class (no superadditivity assumption): the observation clause must not depend on the class
    run.prove("linear.any_class[n=3,size=2]", E.sc_linear_env, {"n": 3, "size": 2, "gap": "l1_norm", "cls": None}, pkg=pkg)
    # consecutive steps with no mask query in between (a step must not depend on the caller having asked for the mask)
    run.prove("two_steps[n=3,2,2]", E.sc_linear_two_steps, {"n": 3, "sizes": [2, 2]}, pkg=pkg)
    run.prove("two_steps[n=4,2,2,3]", E.sc_linear_two_steps, {"n": 4, "sizes": [2, 2, 3], "gap": "l1_norm"}, pkg=pkg)
    run.discharge()
    rows = []
    for gk, comp in (("xos2", "sam_apx_1"), ("oxs", "sam_apx_1"), ("factory", "superadditive_cached"), ("noisy_factory", "superadditive_cached"), ("graph_cycle", "superadditive"),
                     ("xos", "sam_apx_1"), ("k_budget_generator", "sam_apx_10")):
        for n in (3, 4, 5, 6):
            if comp == "superadditive" and n == 6:
                continue
            e, w = native_runs(run, n, gk, comp, (6 if gk in ('xos2', 'oxs') and n <= 5 else 2) if quick else 15)
            run.native_evals += e
            run.native_distinct.update(("lin", gk, n, j) for j in range(e))
            rows.append({"generator": gk, "computer": comp, "n": n, "steps_checked": e, "failure": w})
            if w:
                run._report_violation(f"native[{gk},n={n}]/{w['what']}", E.sc_linear_env, {"n": n, "size": 2}, w, True, detail={"layer": "bounded"})
            if n <= 5 and gk in ("xos2", "factory", "noisy_factory"):
                e, w = native_runs(run, n, gk, comp, 8 if quick else 30, ask_mask=False)
                run.native_evals += e
                run.native_distinct.update(("lin-nomask", gk, n, j) for j in range(e))
                rows.append({"generator": gk, "computer": comp, "n": n, "steps_checked": e, "failure": w, "mask_asked_between_steps": False})
                if w:
                    run._report_violation(f"native.no_mask_calls[{gk},n={n}]/{w['what']}", E.sc_linear_env, {"n": n, "size": 2}, w, True,
                                          detail={"layer": "bounded"})
    run.bounded.append({"label": "real ICG_Gym_Linear over real ICG_Gym", "rows": rows,
                        "bound": "seeded sequences of allowed sizes until done, n=3..6, several families, random tie-breaks"})
    return run.finish(
        explanation="ICG_Gym_Linear proved against its contract over the real ICG_Gym in an arbitrary invariant state (every chosen "
                    "set at once): mask[k] iff an explorable coalition of size k is unknown, observation = per-size sum of the inner "
                    "observation with length n, step(k) reveals exactly one previously unknown coalition of size k (EVERY tie-break "
                    "explored via the choice contract), reports it and forwards reward/done; reset. The length-n clause uses the "
                    "precondition of the only call site (minimal initial knowledge, n >= 3).")
