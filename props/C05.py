"""C05  Exploitability = summed best-case Shapley gain = binomially weighted gap."""
from __future__ import annotations

from math import comb

from props import scenarios as S

LEVEL = "proof"


def bounded_inputs(run, n, count, ordered=True):
    for i in range(count):
        d = {"vN": float(run.rng.randint(-5, 20))}
        for c in range(1, (1 << n) - 1):
            a, b = run.rng.uniform(-10, 10), run.rng.uniform(-10, 10)
            if i % 4 == 0:
                a, b = float(round(a)), float(round(b))
            if ordered and i % 3 != 2:
                a, b = min(a, b), max(a, b)
            if i % 5 == 4:
                b = a
            d[f"lo{c}"], d[f"up{c}"] = a, b
        yield d


def scaled_inputs(run, n, count):
    """The same tables multiplied by a power of two (exact in floats, so the clean tree gives exactly the scaled
    results); the tolerance floor follows the scale ("__unit__"), so an absolute threshold hidden in the code shows."""
    for k, d in enumerate(bounded_inputs(run, n, count)):
        s = 2.0 ** (-20, -30, -40, 20)[k % 4]
        e = {key: v * s for key, v in d.items()}
        e["__unit__"] = s
        yield e


def main(run):
    pkg = run.package()
    run.under_contract(pkg, "exploitability", ["MaxGainGame.__init__", "MaxGainGame.get_values", "MaxGainGame.get_value",
                                               "compute_exploitability"])
    run.under_contract(pkg, "shapley", ["compute_shapley_value_for_player", "_shapley_value_for_player", "_get_contributions"])
    run.inlined.update(["shapley.* (real functions; their own contract is C06)", "game.IncompleteCooperativeGame getters (C17)",
                        "coalitions.* (concrete; C18)"])
    ns = (2, 3, 4, 5, 6) if run.tier == "quick" else (2, 3, 4, 5, 6, 7, 8)
    for n in ns:
        run.prove(f"exploitability[n={n}]", S.sc_exploitability, {"n": n, "canary": n == 3},
                  fallback=(lambda n=n: run.bounded_run(f"fallback[n={n}]", S.sc_exploitability, {"n": n},
                                                        bounded_inputs(run, n, 100), bound="100 seeded bound tables")))
        if n >= 3:
            run.prove(f"exploitability.after_other_entry_points[n={n}]", S.sc_exploitability, {"n": n, "history": True})
        for i in range(n if n <= 6 else 2):
            run.prove(f"dominates[n={n},i={i}]", S.sc_exploitability_dominates, {"n": n, "i": i})
        run.prove(f"lemma.gap[n={n}]", S.lem_gap_monotone, {"n": n, "gap": "exploitability"}, lemma=True)
    run.discharge()
    for n in ((3, 5, 7, 9) if run.tier == "quick" else (3, 5, 7, 9, 10)):
        cnt = (12 if n < 9 else 3) if run.tier == "quick" else (60 if n < 9 else 6)
        run.bounded_run(f"float[n={n}]", S.sc_exploitability, {"n": n}, bounded_inputs(run, n, cnt), tol=1e-9,
                        bound=f"{cnt} seeded bound tables (ordered, unordered, degenerate), relative tolerance 1e-9")
        if n <= 7:
            run.bounded_run(f"float.scaled[n={n}]", S.sc_exploitability, {"n": n}, scaled_inputs(run, n, 8), tol=1e-9,
                            bound="8 seeded bound tables scaled by 2^-20, 2^-30, 2^-40, 2^20; tolerance 1e-9 relative to the scale")
        run.bounded_run(f"float.after_other_entry_points[n={n}]", S.sc_exploitability, {"n": n, "history": True},
                        bounded_inputs(run, n, max(2, cnt // 4)), tol=1e-9,
                        bound="the same after compute_shapley_value / compute_shapley_value_for_player / compute_exploitability "
                              "were used on another game with the same player count in this process")
    return run.finish(
        explanation="compute_exploitability proved equal to (sum_i Shapley of the max-gain game) - v(N) and to the "
                    "binomially weighted gap for every real bound table with known grand coalition, per n; MaxGainGame's "
                    "two entry points against their spec; non-negativity, zero-iff-degenerate, and domination of every "
                    "completion inside the box, all as obligations over the real code's symbolic result.")
