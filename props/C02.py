"""C02  Superadditive bounds are tight: the extreme superadditive completions."""
from __future__ import annotations

from props import scenarios as S
from props.C01 import COMPUTERS, bounded_inputs, contract_functions
from rt import gen
from spec.sets import minimal

LEVEL = "proof"


def lp_check(run, n, count):
    """Bounded + spec validation (A5): LP optimum over the completion polytope vs the real package."""
    import numpy as np
    from scipy.optimize import linprog
    from pyvc.mode import native_pkg
    from spec.sets import splits
    P = native_pkg()
    game_m, bounds, co = P.mod("game"), P.mod("bounds"), P.mod("coalitions")
    N = 1 << n
    rows = []
    for u in range(1, N):
        for s, t in splits(u):
            r = np.zeros(N)
            r[s] += 1
            r[t] += 1
            r[u] -= 1
            rows.append(r)
    A = np.array(rows)
    fails = 0
    evals = 0
    for i in range(count):
        v = gen.superadditive_game(run.rng, n, kind=("int", "dyadic")[i % 2], negative=(i % 3 == 0))
        K = sorted(gen.knowledge(run.rng, n, p=run.rng.choice([0.0, 0.2, 0.5])))
        for comp in COMPUTERS:
            g = game_m.IncompleteCooperativeGame(n, bounds.BOUNDS[comp])
            g.set_known_values([v[c] for c in K], [co.Coalition(c) for c in K])
            g.compute_bounds()
            lo, up = g.get_lower_bounds(), g.get_upper_bounds()
            bnds = [(v[c], v[c]) if c in K else (None, None) for c in range(N)]
            for s in range(1, N):
                if s in K:
                    continue
                evals += 1
                c = np.zeros(N)
                c[s] = 1
                rmin = linprog(c, A_ub=A, b_ub=np.zeros(len(A)), bounds=bnds, method="highs")
                rmax = linprog(-c, A_ub=A, b_ub=np.zeros(len(A)), bounds=bnds, method="highs")
                if rmin.status != 0 or rmax.status != 0:
                    continue
                scale = 1e-7 * max(1.0, max(abs(x) for x in v))
                if abs(rmin.fun - lo[s]) > scale or abs(-rmax.fun - up[s]) > scale:
                    fails += 1
                    run._report_violation(f"lp.{comp}[n={n}]/tight[{s}]", S.sc_sa_bounds,
                                          {"n": n, "computer": comp, "functional": True},
                                          gen.game_inputs(v, set(K), n), True,
                                          detail={"layer": "bounded-lp", "lp_min": rmin.fun, "lp_max": -rmax.fun,
                                                  "lower": float(lo[s]), "upper": float(up[s]), "coalition": s})
                    break
    run.native_evals += evals
    run.native_distinct.update(("lp", n, j) for j in range(evals))
    run.bounded.append({"label": f"lp[n={n}]", "evaluations": evals, "failures": fails,
                        "bound": f"{count} seeded (game, K) pairs, every unknown coalition, both computers; scipy HiGHS"})


def main(run):
    pkg = run.package()
    contract_functions(run, pkg)
    ns = (2, 3, 4, 5) if run.tier == "quick" else (2, 3, 4, 5, 6)
    for n in ns:
        for comp in COMPUTERS:
            run.prove(f"{comp}[n={n}]", S.sc_sa_bounds, {"n": n, "computer": comp, "functional": True},
                      fallback=(lambda n=n, comp=comp: run.bounded_run(
                          f"fallback.{comp}[n={n}]", S.sc_sa_bounds, {"n": n, "computer": comp, "functional": True},
                          bounded_inputs(run, n, 200), bound=f"200 seeded (game, K, stale) triples at n={n}")))
    lem_ns = (3, 4) if run.tier == "quick" else (3, 4, 5)
    for n in lem_ns:
        run.prove(f"lemma.tight[n={n}]", S.lem_tight, {"n": n}, lemma=True)
        for s in range(1, 1 << n):
            if s not in minimal(n):
                run.prove(f"lemma.tight_upper[n={n},s={s}]", S.lem_tight_upper, {"n": n, "s": s}, lemma=True)
    run.discharge()
    for n in ((3, 4) if run.tier == "quick" else (3, 4, 5)):
        lp_check(run, n, 6 if run.tier == "quick" else 30)
    for n in (3, 4, 5, 6):
        run.bounded_run(f"float.functional[n={n}]", S.sc_sa_bounds, {"n": n, "computer": "superadditive_cached", "functional": True},
                        bounded_inputs(run, n, 10 if run.tier == "quick" else 60), tol=1e-9,
                        bound="seeded superadditive games x random K x stale rows; spec L/U recomputed in floats")
    return run.finish(
        explanation="Functional postcondition table = (L, U) of the current knowledge proved for both computers, every "
                    "superadditive game and every knowledge set per n; ghost lemmas (spec only): L is the maximum over "
                    "set partitions into known coalitions, L is itself a superadditive completion, and for every unknown "
                    "S the lower game of the knowledge enlarged by (S, U(S)) is a completion attaining U(S) - hence "
                    "[L(S), U(S)] is exactly the range over the completion polytope. LP cross-check bounded.")
