"""C14: the regret minimiser."""
from __future__ import annotations

from itertools import combinations

from props.scenarios import scenario
from spec.sets import popcount


def viable(n):
    return [c for c in range(1 << n) if popcount(c) not in (0, 1, n)]


def terminal_histories(M, n, limit):
    C = M.mod("coalitions").Coalition
    v = viable(n)
    lim = min(limit, len(v))
    return [[C(c) for c in combo] for combo in combinations(v, lim)]


def regret_package():
    from pyvc import loader, stubs_fs
    fs = stubs_fs.FS()
    pkg = loader.Package(stubs={"json": stubs_fs.SpecJSON()})
    pkg.fs = fs
    return pkg


@scenario
def sc_regret_constructor(M, n, limit):
    """Constructible; meta_rank_to_id is a bijection onto the coalition sets of size <= limit, ordered by size;
    meta_id_to_rank is its inverse; the number of regret minimisers is the number of sets of size < limit."""
    rg = M.mod("regret")
    rm = rg.GameRegretMinimizer(n, limit)
    ncoal = (1 << n) - n - 2
    lim = min(limit, ncoal)
    r2i = [int(x) for x in rm.meta_rank_to_id]
    expected = [sum(1 << i for i in combo) for size in range(lim + 1) for combo in combinations(range(ncoal), size)]
    M.check("ranking.is_bijection", len(r2i) == len(set(r2i)) == len(expected) and set(r2i) == set(expected))
    M.check("ranking.ordered_by_size", all(popcount(a) <= popcount(b) for a, b in zip(r2i, r2i[1:])))
    M.check("ranking.inverse", all(int(rm.meta_id_to_rank[m]) == k for k, m in enumerate(r2i)))
    M.check("ranking.viable_count", rm.viable_metacoalitions == len(expected) and rm.number_of_coalitions == ncoal)
    M.check("minimizers.count", rm.number_of_regret_minimizers == sum(1 for m in expected if popcount(m) <= lim - 1)
            if limit <= ncoal else True)
    M.check("tables.shape", tuple(rm.cumulative_regret.shape) == (rm.number_of_regret_minimizers, ncoal)
            and tuple(rm.cumulative_strategy.shape) == (rm.number_of_regret_minimizers, ncoal))
    v = viable(n)
    pid = [int(x) for x in rm.coalitions_to_player_ids]
    M.check("player_ids", [pid[c] for c in v] == list(range(len(v))) and all(pid[c] == -1 for c in range(1 << n) if c not in v))


def arbitrary_rm_state(M, rm, plus, tag=""):
    """An arbitrary state satisfying RMInv: for a in used(node): regret <= 0 (== 0 under plus) and strategy == 0;
    strategy >= 0; plus => regret >= 0."""
    R, S = {}, {}
    for node in range(rm.number_of_regret_minimizers):
        used = set(_members(int(rm.meta_rank_to_id[node])))
        for a in range(rm.number_of_coalitions):
            r, s = M.real(f"{tag}R{node}_{a}"), M.real(f"{tag}S{node}_{a}")
            if a in used:
                M.assume(r <= 0)
                M.assume(s == 0)
            M.assume(s >= 0)
            if plus:
                M.assume(r >= 0)
            rm.cumulative_regret[node, a] = r
            rm.cumulative_strategy[node, a] = s
            R[node, a], S[node, a] = r, s
    return R, S


def _members(m):
    return [i for i in range(m.bit_length()) if m >> i & 1]


def check_distribution(M, name, probs, zero_at):
    probs = [M.val(p) for p in probs]
    M.check(f"{name}.nonneg", M.and_(*[p >= 0 for p in probs]))
    M.check(f"{name}.sums_to_one", M.sum_is_one(probs))
    M.check(f"{name}.zero_on_excluded", M.and_(*[probs[a] == 0 for a in zero_at]))


@scenario
def sc_regret_strategies(M, n, limit, plus, node=None, other_first=False):
    """From an arbitrary RMInv state: every current strategy and every average strategy is a probability distribution
    supported only on viable coalitions not yet revealed at that node, and the current strategy is regret matching on
    THIS minimiser's regrets (positive parts normalised; uniform over the unused coalitions when none is positive).
    other_first: another minimiser of the same shape, in a different arbitrary state, is alive and is asked first."""
    rg = M.mod("regret")
    C = M.mod("coalitions").Coalition
    rm = rg.GameRegretMinimizer(n, limit, plus)
    R, _S = arbitrary_rm_state(M, rm, plus)
    other = None
    if other_first:
        other = rg.GameRegretMinimizer(n, limit, not plus)
        arbitrary_rm_state(M, other, not plus, tag="o")
    v = viable(n)
    for node in (range(rm.number_of_regret_minimizers) if node is None else [node]):
        meta = int(rm.meta_rank_to_id[node])
        used = _members(meta)
        if other is not None:
            other.regret_matching_strategy(meta)
            other.get_average_strategy([C(v[a]) for a in used])
        sigma = rm.regret_matching_strategy(meta)
        check_distribution(M, f"current[node={node}]", list(sigma), used)
        pos = [M.max_([R[node, a], M.const(0)]) for a in range(rm.number_of_coalitions)]
        total = M.sum_(pos)
        free = rm.number_of_coalitions - len(used)
        for a in range(rm.number_of_coalitions):
            sa = M.val(sigma[a])
            M.check(f"current[node={node}].is_regret_matching[{a}]",
                    M.ite(total > 0, sa * total == pos[a], sa * free == (0 if a in used else 1)))
        past = [C(v[a]) for a in used]
        avg = rm.get_average_strategy(past)
        M.check(f"average[node={node}].length", len(avg) == (1 << n))
        excluded = [c for c in range(1 << n) if c not in v or v.index(c) in used]
        check_distribution(M, f"average[node={node}]", list(avg), excluded)
        by_list = rm.regret_matching_strategy(past)
        M.check(f"current[node={node}].by_actions_equals_by_id", M.and_(*[M.val(x) == M.val(y) for x, y in zip(by_list, sigma)]))


@scenario
def sc_regret_iteration(M, n, limit, plus, iteration=None, orth=True):
    """regret_min_iteration from an arbitrary RMInv state with non-negative terminal values: preserves RMInv, increments
    `iteration`, and the regret added at each node is orthogonal to the strategy played there."""
    rg = M.mod("regret")
    rm = rg.GameRegretMinimizer(n, limit, plus)
    np_ = rg.np
    R, S = arbitrary_rm_state(M, rm, plus)
    it0 = M.int("iteration", lo=0) if iteration is None else iteration
    rm.iteration = it0
    hist = terminal_histories(M, n, limit)
    losses = [M.real(f"loss{j}") for j in range(len(hist))]
    for x in losses:
        M.assume(x >= 0)
    sigma = {}
    for node in range(rm.number_of_regret_minimizers):
        sigma[node] = [M.val(x) for x in rm.regret_matching_strategy(int(rm.meta_rank_to_id[node]))]
    rm.regret_min_iteration(np_.array(losses, dtype=np_.float64), hist)
    M.check("iteration.incremented", M.val(rm.iteration) == it0 + 1)
    for node in range(rm.number_of_regret_minimizers):
        used = set(_members(int(rm.meta_rank_to_id[node])))
        added = []
        for a in range(rm.number_of_coalitions):
            r2, s2 = M.val(rm.cumulative_regret[node, a]), M.val(rm.cumulative_strategy[node, a])
            added.append(r2 - R[node, a])
            if a in used:
                M.check(f"inv.used_regret_nonpositive[{node},{a}]", r2 <= 0)
                M.check(f"inv.used_strategy_zero[{node},{a}]", s2 == 0)
            M.check(f"inv.strategy_nonneg[{node},{a}]", s2 >= 0)
            if plus:
                M.check(f"inv.plus_regret_nonneg[{node},{a}]", r2 >= 0)
        if not plus and orth:
            M.check(f"orthogonal[{node}]", M.sum_([sigma[node][a] * added[a] for a in range(rm.number_of_coalitions)]) == 0)


@scenario
def sc_regret_save_load(M, n, limit, plus):
    """load(save(x)) has equal fields and continues identically (one more iteration on both gives equal tables)."""
    from pyvc import stubs_fs
    rg = M.mod("regret")
    np_ = rg.np
    rm = rg.GameRegretMinimizer(n, limit, plus)
    arbitrary_rm_state(M, rm, plus)
    rm.iteration = 7
    if M.symbolic:
        fs = M.pkg.fs
        fs.files.clear()
        path = stubs_fs.SpecPath(fs, "/models/rm")
    else:
        import pathlib
        import tempfile
        path = pathlib.Path(tempfile.mkdtemp(prefix="c14_"))
    rm.save(path)
    rm2 = rg.GameRegretMinimizer.load(path)
    for k, val in vars(rm).items():
        other = getattr(rm2, k, None)
        if hasattr(val, "shape"):
            same = tuple(val.shape) == tuple(other.shape) and M.and_(*[M.val(x) == M.val(y) for x, y in zip(val.flat, other.flat)])
        else:
            same = val == other
        M.check(f"field[{k}]", same)
    hist = terminal_histories(M, n, limit)
    losses = [M.real(f"loss{j}") for j in range(len(hist))]
    for x in losses:
        M.assume(x >= 0)
    rm.regret_min_iteration(np_.array(losses, dtype=np_.float64), hist)
    rm2.regret_min_iteration(np_.array(losses, dtype=np_.float64), hist)
    M.check("continues.regret", M.and_(*[M.val(x) == M.val(y) for x, y in zip(rm.cumulative_regret.flat, rm2.cumulative_regret.flat)]))
    M.check("continues.strategy", M.and_(*[M.val(x) == M.val(y) for x, y in zip(rm.cumulative_strategy.flat, rm2.cumulative_strategy.flat)]))
    M.check("continues.iteration", rm.iteration == rm2.iteration == 8)
