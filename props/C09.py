"""C09  The reveal-one-coalition environment reflects exactly what was revealed."""
from __future__ import annotations

import itertools

from props import env_scenarios as E
from props import scenarios as S
from spec.sets import minimal

LEVEL = "proof"


def native_sequences(run, n, gen_key, computer, gap, budget, max_seqs):
    """Bounded: the real ICG_Gym (real gymnasium) along action sequences without repetition, every step checked
    against an independently recomputed incomplete game."""
    import numpy as np
    from pyvc.mode import native_pkg
    P = native_pkg()
    model, co, game_m, bounds, normalize = (P.mod("run.model"), P.mod("coalitions"), P.mod("game"), P.mod("bounds"),
                                            P.mod("normalize"))
    inst = model.ModelInstance(number_of_players=n, game_class=computer, game_generator=gen_key, gap_function=gap,
                               run_steps_limit=budget, seed=run.rng.randrange(1 << 30))
    env = inst.get_env()
    m = len(env.explorable_coalitions)
    gapf = model.GAP_FUNCTIONS[gap]
    seqs = list(itertools.permutations(range(m))) if n == 3 else [run.rng.sample(range(m), m) for _ in range(max_seqs)]
    if len(seqs) > max_seqs:
        seqs = run.rng.sample(seqs, max_seqs)
    evals = 0
    for seq in seqs:
        st, info = env.reset()
        full = info["game"]
        vals = full.get_values()
        normed = full.copy()
        normalize.normalize_game(normed)
        nv = normed.get_values()
        known = set(minimal(n))

        def expect():
            g = game_m.IncompleteCooperativeGame(n, bounds.BOUNDS[computer])
            ks = sorted(known)
            g.set_known_values([vals[c] for c in ks], [co.Coalition(c) for c in ks])
            g.compute_bounds()
            return g
        steps = 0
        for a in seq:
            evals += 1
            if env.done:
                break
            res = env.step(a)
            c = env.explorable_coalitions[a].id
            known.add(c)
            steps += 1
            g = expect()
            exp_state = np.array([nv[e.id] if e.id in known else 0.0 for e in env.explorable_coalitions])
            exp_mask = np.array([e.id not in known for e in env.explorable_coalitions])
            exp_done = (budget is not None and steps >= budget) or not exp_mask.any() or bool(
                np.all(g.get_upper_bounds() - g.get_lower_bounds() == 0))
            ok = (np.array_equal(env.incomplete_game._values, g._values) and np.allclose(res[0], exp_state, rtol=1e-12, atol=0)
                  and np.array_equal(env.action_masks(), exp_mask) and abs(res[1] + gapf(g)) <= 1e-12 * max(1, abs(res[1]))
                  and res[2] == exp_done and res[3] is False and res[4] == {"chosen_coalition": c}
                  and res[1] <= 1e-9 * max(1.0, float(np.max(np.abs(vals)))))
            if not ok:
                run._report_violation(f"native[{gen_key},{computer},{gap},n={n}]/step", E.sc_env_step,
                                      {"n": n, "computer": computer, "gap": gap, "action": a, "budget": budget},
                                      {"values": [float(x) for x in vals], "sequence": list(seq), "at": a}, True,
                                      detail={"layer": "bounded", "result": repr(res), "expected_done": exp_done})
                return evals, 1
    return evals, 0


def main(run):
    pkg = run.package()
    run.under_contract(pkg, "icg_gym", ["ICG_Gym.__init__", "ICG_Gym.action_masks", "ICG_Gym.state", "ICG_Gym.reward",
                                        "ICG_Gym.done", "ICG_Gym.reset", "ICG_Gym.step", "ICG_Gym.unstep", "compute_reward"])
    run.under_contract(pkg, "normalize", ["normalize_game", "_normalize_icg", "_get_norminfo"])
    run.under_contract(pkg, "run.model", ["ModelInstance.get_env"])
    run.inlined.update(["game.IncompleteCooperativeGame (C17)", "bounds computers (C01/C02)", "gap functions (C05/C07)",
                        "normalize.normalize_game (C15)"])
    run.stubs_used.update(["gymnasium.Env / spaces (stub: reset has no effect on the fields ICG_Gym defines)",
                           "SpecGenerator (fresh symbolic game of the assumed class per call)"])
    quick = run.tier == "quick"
    combos = [("superadditive_cached", "exploitability", None), ("superadditive", "l1_norm", 2),
              ("superadditive_cached", "linf_norm", 1), ("superadditive_cached", "l2_norm", None),
              ("sam_apx_1", "exploitability", None)]
    for n in ((3,) if quick else (3, 4)):
        m = (1 << n) - n - 2
        for comp, gap, budget in combos:
            if n == 4 and (gap == "l2_norm" or comp == "sam_apx_1"):
                continue
            p = {"n": n, "computer": comp, "gap": gap, "budget": budget}
            run.prove(f"observers[{comp},{gap},b={budget},n={n}]", E.sc_env_observers, p)
            run.prove(f"reset[{comp},{gap},b={budget},n={n}]", E.sc_env_construct_reset, p)
            acts = list(range(m)) if n == 3 else run.rng.sample(range(m), 2)
            for a in acts:
                run.prove(f"step[{comp},{gap},b={budget},n={n},a={a}]", E.sc_env_step, dict(p, action=a))
                run.prove(f"unstep[{comp},{gap},b={budget},n={n},a={a}]", E.sc_env_step_unstep, dict(p, action=a))
    # a non-minimal initial knowledge (the constructor adds the empty and the grand coalition itself)
    run.prove("reset[initial={3}]", E.sc_env_construct_reset, {"n": 3, "computer": "superadditive_cached", "gap": "l1_norm",
                                                               "initial": [1, 2, 4, 3]})
    hist = [h for L in (3, 4) for h in E.all_histories(3, L) if any(k == "u" for k, _ in h)]
    for h in (run.rng.sample(hist, 12) if quick else hist):
        tag = "".join(f"{k}{j}" for k, j in h)
        run.prove(f"history[n=3,{tag}]", E.sc_env_history, {"n": 3, "computer": "superadditive_cached", "gap": "l1_norm", "ops": h, "budget": 3})
    run.discharge()
    rows = []
    fams = [("factory", "superadditive_cached"), ("noisy_factory", "superadditive"), ("graph_cycle", "superadditive_cached"),
            ("xos", "sam_apx_1"), ("k_budget_generator", "sam_apx_10"), ("graph_random", "superadditive_cached"),
            ("factory_cheerleader_next", "superadditive_cached"), ("xs", "sam_apx_1"), ("covg_fn_generator", "sam_apx_1")]
    for i, (gk, comp) in enumerate(fams if not quick else fams[:6]):
        for n in (3, 4, 5):
            gap = S.GAPS[(i + n) % 4]
            budget = (None, 2, 5)[(i + n) % 3]
            e, f = native_sequences(run, n, gk, comp, gap, budget, 6 if quick else 40)
            run.native_evals += e
            run.native_distinct.update(("seq", gk, n, j) for j in range(e))
            rows.append({"generator": gk, "computer": comp, "gap": gap, "budget": budget, "n": n, "steps_checked": e, "failures": f})
    # `done` by degenerate intervals before everything is revealed, on games with non-dyadic float values and the
    # exploitability gap, whole episodes without a step budget: there the gap is +-1e-16 rather than 0.0, so a `done` that
    # is right over the reals but asks the wrong float question (gap == 0 instead of all widths == 0) shows
    for gk, comp in (("noisy_factory", "superadditive_cached"), ("xs", "sam_apx_1"), ("noisy_factory", "superadditive"),
                     ("covg_fn_generator", "sam_apx_1"), ("xos", "superadditive_cached")):
        for n in (3, 4):
            e, f = native_sequences(run, n, gk, comp, "exploitability", None, 6 if quick else 40)
            run.native_evals += e
            run.native_distinct.update(("seqd", gk, comp, n, j) for j in range(e))
            rows.append({"generator": gk, "computer": comp, "gap": "exploitability", "budget": None, "n": n, "steps_checked": e, "failures": f,
                         "purpose": "done by degenerate intervals (float)"})
    run.bounded.append({"label": "real ICG_Gym + real gymnasium along action sequences", "rows": rows,
                        "bound": "all orders for n=3, seeded orders for n=4,5; several generator families x computers x gaps x budgets"})
    return run.finish(
        explanation="Every method of ICG_Gym proved against its contract from an arbitrary state satisfying the environment "
                    "invariant (every chosen set at once via symbolic known-flags; hidden game symbolic and of the assumed "
                    "class), with the real game class, real computers, real gap functions and real normalisation inlined: "
                    "mask, observation (= normalised hidden value x known flag), reward = -gap of freshly computed bounds "
                    "(<= 0), done, step (table = L/U of the enlarged knowledge), unstep (exact restore), reset. Since each "
                    "method is proved from an arbitrary invariant state, all call sequences are covered. n=3 (4 thorough).")
