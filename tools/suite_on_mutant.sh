#!/bin/sh
# tools/suite_on_mutant.sh <seeded-id>: run the repository's full suite on a scratch copy with the seeded patch; compare with the baseline
ID=$1
HERE=$(cd "$(dirname "$0")/.." && pwd)
S=$(mktemp -d /tmp/suite.XXXXXX)
cp -r /repo/. "$S/" 2>/dev/null; rm -rf "$S/.git"
(cd "$S" && patch -p1 -s < "$HERE/seeded/$ID/patch.diff") || { echo "$ID PATCH-FAILED"; rm -rf "$S"; exit 1; }
(cd "$S" && OMP_NUM_THREADS=4 /venv/bin/python -m pytest -ra -q -p no:cacheprovider --timeout=900 --continue-on-collection-errors --junitxml="$S/junit.xml" > "$S/log.txt" 2>&1)
python3 "$HERE/tools/baseline_compare.py" "$S/junit.xml" > "$HERE/seeded/$ID/suite_result.txt" 2>&1
tail -1 "$S/log.txt" >> "$HERE/seeded/$ID/suite_result.txt"
echo "$ID $(head -1 $HERE/seeded/$ID/suite_result.txt)"
rm -rf "$S"
