#!/bin/sh
# tools/try_mutant.sh <patch.diff> <Cxx> [<Cyy> ...]  -- run checks against a scratch copy of /repo with the patch applied
set -e
HERE=$(cd "$(dirname "$0")/.." && pwd)
PATCH=$(readlink -f "$1"); shift
S=$(mktemp -d /tmp/mutrepo.XXXXXX)
cp -r /repo/incomplete_cooperative "$S/"
cp /repo/setup.py /repo/setup.cfg "$S/" 2>/dev/null || true
(cd "$S" && git init -q . && git apply --unsafe-paths "$PATCH" 2>/dev/null || patch -p1 -s < "$PATCH")
for id in "$@"; do
  REPO_ROOT="$S" "$HERE/bin/check" "$id" --tier ${TIER:-quick} 2>&1 | grep -E "^(C[0-9]+ |VIOLATION|KNOWN)" | cut -c1-220 | head -${LINES_MAX:-6}
done
rm -rf "$S"
