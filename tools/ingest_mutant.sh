#!/bin/sh
# tools/ingest_mutant.sh <worktree> <seeded-id> <property>  -- copy an independently written change into seeded/<id>/ and confirm its demo
WT=$1; ID=$2; PROP=$3
HERE=$(cd "$(dirname "$0")/.." && pwd)
D="$HERE/seeded/$ID"
mkdir -p "$D"
git -C "$WT" diff -- incomplete_cooperative > "$D/patch.diff"
cp "$WT/demo.py" "$D/demo.py"
[ -f "$WT/NOTES.md" ] && cp "$WT/NOTES.md" "$D/NOTES.md"
# confirm the demonstration both ways in a scratch copy
S=$(mktemp -d /tmp/ingest.XXXXXX)
cp -r /repo/incomplete_cooperative "$S/"; cp "$D/demo.py" "$S/"
(cd "$S"; timeout 600 /venv/bin/python demo.py > "$D/demo_without_change.txt" 2>&1; echo $? > "$D/rc_without")
(cd "$S"; patch -p1 -s < "$D/patch.diff"; timeout 600 /venv/bin/python demo.py > "$D/demo_with_change.txt" 2>&1; echo $? > "$D/rc_with")
rm -rf "$S"
echo "$ID: demo rc without change = $(cat $D/rc_without), with change = $(cat $D/rc_with)"
