"""Per-property manifest entries."""
_NOTE = ("per-n proofs (n range in evidence); float arithmetic treated as exact reals (A1); numpy model (A2) with conformance pass; "
         "z3/cvc5 trusted (A4); spec functions trusted as the intended mathematics (A5); see evidence trusted_base")
CHECKS = {
    "C01": {"level": "proof", "technique": "contract-based deductive verification (symbolic execution of the real code under a numpy model -> SMT obligations, z3/cvc5); bounded run-time contracts for float/history clauses",
            "text": "Containment, ordering and exactness postconditions of both superadditive computers discharged for all real-valued superadditive games, all knowledge sets and arbitrary stale tables per n=2..6; operation histories by an inductive invariant plus whole-history scenarios with several operations between recomputes; float clause and long histories bounded; exactly representable games at binary scales 2^-40..2^24 compared with tolerance 0.",
            "note": _NOTE},
    "C02": {"level": "proof", "technique": "contract-based deductive verification: functional postcondition table=(L,U) + ghost lemmas over spec functions (z3); LP cross-check bounded",
            "text": "Both computers proved equal to the spec functions L/U for all games and knowledge sets per n; ghost lemmas prove L/U are the attained extremes over the completion polytope.",
            "note": _NOTE},
    "C03": {"level": "proof", "technique": "contract-based deductive verification: relational (product) obligation over the two real computers on one symbolic pre-state; memoisation interleavings enumerated; bit-identity bounded",
            "text": "Equality of the two computers' tables proved for every state (all knowledge sets, independent stale rows, no class assumption) per n; repeated invocation and memoisation across player counts checked.",
            "note": _NOTE},
}

_T = "contract-based deductive verification (pyvc: symbolic execution of the real functions under a numpy model -> SMT obligations, z3/cvc5)"
CHECKS.update({
    "C04": {"level": "proof", "technique": _T + "; loop invariant (R-loopcut) for every repetition count; bounded run-time contracts",
            "text": "SAM approximation proved sound, never looser than SA, monotone and self-consistent for every repetition count (cut loop with inductive invariant + frame), all knowledge sets, all SAM games at n=3,4; registered counts bounded on the real package for larger n. The memoised relation structure (ids, relation codes, size order) is checked against bit arithmetic for every n = 1..10 and the real computer is run at n = 9 (bounded).",
            "note": _NOTE},
    "C05": {"level": "proof", "technique": _T,
            "text": "Exploitability identities proved for every real bound table with known grand coalition per n=2..6 (8 thorough): equals summed best-case Shapley gain and the binomial gap; non-negativity, zero iff degenerate, domination of every completion. Also with every other public entry point of the Shapley / exploitability modules used first in the same process (memoised tables must not be disturbed).",
            "note": _NOTE},
    "C06": {"level": "proof", "technique": _T + "; spec enumerates the n! orderings",
            "text": "Both Shapley entry points proved equal to the average marginal contribution over all orderings for all real games per n=2..6 (7 thorough); efficiency, null player, relabelling, linearity on the code's outputs. The contribution coefficients of the real helper are compared with exact integers for every n = 1..100 (exhaustive over the player counts a double can express).",
            "note": _NOTE},
    "C07": {"level": "proof", "technique": _T + "; relational before/after-reveal obligations; ghost lemmas; lattice edges bounded",
            "text": "Intervals shrink under a true reveal: spec-level lemma for all K, code-level relational proof for the SA computers (n=3..5) and, through a relational loop invariant, for the SAM approximation with EVERY repetition count (n=3,4); gap-function contracts, monotonicity lemmas, zero at full knowledge.",
            "note": _NOTE + "; SAM approximation: every repetition count through a relational invariant over the cut loop at n=3,4, larger n bounded"},
    "C08": {"level": "proof", "technique": _T + "; 2-safety by self-composition (two stale pre-states), idempotence, reveal/undo",
            "text": "Tables proved to be a function of knowledge alone (independent stale rows), idempotent and restored by reveal/un-reveal for the SA computers per n; for the SAM approximation unrolled (sam_apx_1/10) and for EVERY repetition count by a relational cut of its loop; environment step/unstep histories.",
            "note": _NOTE + "; SAM approximation: every repetition count through a relational (two-run) cut of the loop at n=3,4, larger n bounded"},
    "C09": {"level": "proof", "technique": _T + "; object invariant + per-method contracts from an arbitrary invariant state",
            "text": "Every ICG_Gym method proved against its contract from an arbitrary state satisfying the environment invariant (all chosen sets at once), real callees inlined, n=3 (4 thorough); real gymnasium sequences bounded, including whole float episodes in which `done` must fire on degenerate intervals (the only place a change that is equivalent over the reals but not in float64 can show).",
            "note": _NOTE + "; gymnasium.Env stubbed in the deductive part"},
})

CHECKS.update({
    "C15": {"level": "proof", "technique": _T + "; QF_NRA for the division by the symbolic surplus; precondition regions R1/R2",
            "text": "For textbook-superadditive games (region R1) normalisation proved to map into [0,1] with singletons 0 and grand coalition 1, stay superadditive, agree between graph and table form, and round-trip exactly, for all real games per n=2..4 (5 thorough). Games accepted only through the library tolerance (R2) are the listed known finding C15-near-additive.",
            "note": _NOTE + "; float residue cases decided only by bounded runs"},
    "C17": {"level": "proof", "technique": _T + "; abstract view + representation invariant, one obligation set per public method from an arbitrary invariant state",
            "text": "Every public method of IncompleteCooperativeGame proved against the view (known, lower, upper) with whole-view postconditions and frames, per n=1..4 (5 thorough); histories follow by induction; random histories bounded. Bulk operations are driven with int64 / list-of-int / float32 / bool arguments in the bounded histories (dtype is invisible to the real-valued model).",
            "note": _NOTE + "; NaN modelled as a poison symbol; coalition lists with repeated ids only bounded"},
    "C18": {"level": "proof", "technique": _T + "; z3 bit-vectors (16/24 bit) for scalar coalition operations, all pairs at once; exhaustive enumeration per n for list-valued functions",
            "text": "Scalar coalition operations proved against elementwise set semantics for all pairs of 16-bit coalitions (every n<=16); enumerations exhaustive for n=1..10; predicates proved equivalent to their definitions on symbolic games n<=3 (4 thorough).",
            "note": _NOTE + "; list-valued enumerations are exhaustive checks per n, not symbolic proofs"},
})

_A6 = "; assumed contracts (A6): file system / JSON identity / RNG supports / exp / networkx adjacency as listed in the evidence"
CHECKS.update({
    "C10": {"level": "other", "technique": _T + " with a symbolic RNG (draws = symbols constrained by support, integer draws enumerated); bounded run-time contracts on the real registry",
            "text": "Mixed: builders and registry partials proved (raises nothing, shape, v(empty)=0, exact superadditivity, monotonicity, draws only from the supplied generator) for every outcome of the random draws at n=3..4; covg/oxs and float-level membership bounded on the real registry n=3..6. Each key's game is also compared with the one a fresh fork()ed process returns for the same key, n and seed (determinism across process histories).",
            "note": _NOTE + _A6},
    "C19": {"level": "other", "technique": _T + " over an abstract file system with effect trace (SpecFS) and a symbolic earlier mapping; real-file round trips bounded",
            "text": "save_json's contract (existing name: no effect; new name: old mapping + entry) proved for an arbitrary earlier mapping; the whole save() pipeline (all registered savers, matplotlib inert) writes exactly the matrices it was given and leaves the caller's matrices untouched; Output.from_json(json(out)) carries symbolic matrices through; byte-level round trip rests on json/numpy and is bounded on real files.",
            "note": _NOTE + _A6},
    "C20": {"level": "proof", "technique": _T + " over an abstract file system: all-or-nothing invariant checked after every prefix of the effect trace; crash injection on the real function as replay",
            "text": "For an arbitrary earlier mapping the results file is, after every prefix of save_json's effect trace, exactly the old or a complete new document (single atomic replace); replayed with the k-th write/close/replace failing on real files. The initial state includes files left behind by an earlier crashed save (stale bytes of unknown length); os.open flags, tempfile and shutil.move (atomic only within one directory) are part of the file-system contract; fault injection hooks every C-level file-system verb and also runs with the results directory on another file system.",
            "note": _NOTE + _A6},
})

CHECKS.update({
    "C14": {"level": "other", "technique": _T + "; object invariant from an arbitrary symbolic state, QF_NRA orthogonality; configurations enumerated; float32 histories bounded",
            "text": "Mixed: constructor/ranking bijection for every configuration (concrete execution under the model); strategies are distributions, one iteration preserves the regret invariant, orthogonality (n=3, limits 1-2; QF_NRA beyond both solvers above that), plus-clipping and save/load proved from an arbitrary invariant state with symbolic terminal values and iteration counter; float32 runs bounded. The current strategy is proved to be regret matching on this minimiser's own regrets also when a second minimiser is alive and asked first; native twins against the same history in a fork()ed process.",
            "note": _NOTE + _A6 + "; orthogonality at n=4 bounded only (QF_NRA beyond both solvers)"},
})

CHECKS.update({
    "C11": {"level": "other", "technique": _T + "; assumed multiprocessing.Pool.starmap contract (SpecPool); enumeration exhaustive per n; real pool bounded",
            "text": "Mixed: the per-task function, the meta-game (also two meta-game objects over different games queried alternately), the search enumeration and best-states proved for a symbolic hidden game (n=3,4) under the assumed starmap contract; possible_action_sequences exhaustive over every knowledge set (n<=3, 4 thorough); worker-count independence additionally exercised with the real pool (bounded).",
            "note": _NOTE + _A6},
    "C12": {"level": "other", "technique": _T + " for eval_one / evaluate(processes=1) over every valid policy; the schedule clause only by bounded runs of the real multiprocessing.Pool",
            "text": "Mixed: trajectories proved for a symbolic hidden game and every valid policy (eval_one all limits at n=3, limit 2 at n=4; evaluate with processes=1); equality across worker counts / non-replay decided only by bounded real-pool runs, where the listed finding C12-pool-rng-replay shows.",
            "note": _NOTE + "; pickling/chunking/shared RNG state are outside any contract in reach; statistical independence not decidable"},
    "C13": {"level": "proof", "technique": _T + "; solver contracts at enumerated environment states with a symbolic hidden game; random choices enumerated by forking",
            "text": "Every registered solver proved to return a valid action by its rule (ties to the lowest index) and to restore the environment's whole view, at all states for n=3 and selected states for n=4; expected-greedy proved to extend by a mean-minimising coalition without repeats with a non-increasing curve (n=3; n=4 one step, two steps thorough). 'Leaves the environment as it found it' includes the identity of the environment's game object and the state of that object as seen by a caller holding it.",
            "note": _NOTE + _A6 + "; n=4/5 states and comparison with the exhaustive optimum bounded"},
    "C16": {"level": "proof", "technique": _T + "; wrapper proved over the real inner environment in an arbitrary invariant state; np.random.choice as a nondeterministic-choice contract",
            "text": "ICG_Gym_Linear proved against its contract for every chosen set at once and every tie-break, n=3,4 (5 thorough): mask, per-size observation of length n, step reveals exactly one unknown coalition of the chosen size and forwards reward/done, reset. Consecutive steps without any mask query in between are covered symbolically (every tie-break) and in the bounded layer.",
            "note": _NOTE + "; gymnasium stubbed; length-n clause under the call site's precondition (minimal initial knowledge)"},
})
NOT_APPLICABLE = {}
