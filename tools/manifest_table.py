"""Per-property manifest entries."""
_NOTE = ("per-n proofs (n range in evidence); float arithmetic treated as exact reals (A1); numpy model (A2) with conformance pass; "
         "z3/cvc5 trusted (A4); spec functions trusted as the intended mathematics (A5); see evidence trusted_base")
CHECKS = {
    "C01": {"level": "proof", "technique": "contract-based deductive verification (symbolic execution of the real code under a numpy model -> SMT obligations, z3/cvc5); bounded run-time contracts for float/history clauses",
            "text": "Containment, ordering and exactness postconditions of both superadditive computers discharged for all real-valued superadditive games, all knowledge sets and arbitrary stale tables per n; operation histories by an inductive invariant; float clause bounded.",
            "note": _NOTE},
    "C02": {"level": "proof", "technique": "contract-based deductive verification: functional postcondition table=(L,U) + ghost lemmas over spec functions (z3); LP cross-check bounded",
            "text": "Both computers proved equal to the spec functions L/U for all games and knowledge sets per n; ghost lemmas prove L/U are the attained extremes over the completion polytope.",
            "note": _NOTE},
    "C03": {"level": "proof", "technique": "contract-based deductive verification: relational (product) obligation over the two real computers on one symbolic pre-state; memoisation interleavings enumerated; bit-identity bounded",
            "text": "Equality of the two computers' tables proved for every state (all knowledge sets, independent stale rows, no class assumption) per n; repeated invocation and memoisation across player counts checked.",
            "note": _NOTE},
}
NOT_APPLICABLE = {}
