#!/bin/sh
# tools/run_seeded.sh [ids...]: every seeded property-breaking change against the check of the property it was written against.
# Expected: a VIOLATION line and exit 1 for each (the last column says CAUGHT / MISSED).
cd "$(dirname "$0")/.."
ids=${*:-$(ls -d seeded/*/ | xargs -n1 basename)}
for m in $ids; do
  p=$(python3 -c "import json;print(json.load(open('seeded/$m/meta.json'))['breaks_property'])")
  out=$(LINES_MAX=400 tools/try_mutant.sh seeded/$m/patch.diff $p 2>&1)
  v=$(echo "$out" | grep -c "^VIOLATION property=$p")
  nf=$(echo "$out" | grep "^VIOLATION property=$p" | grep -vc "no-failing-input-found")
  s=$(echo "$out" | grep -E "^$p " | cut -d: -f1)
  if [ "$v" -gt 0 ]; then r=CAUGHT; else r=MISSED; fi
  echo "$m $s violations=$v with_failing_input=$nf $r" | tee seeded/$m/check_result.txt
done
