#!/usr/bin/env python3
"""tools/checks_for_patch.py <patch.diff>: the property ids whose anchored files (properties.jsonl) the patch touches;
core modules that every scenario reaches select all checks."""
import json, re, sys, os
here = os.path.dirname(os.path.dirname(os.path.abspath(__file__)))
files = set(re.findall(r"^\+\+\+ b/(\S+)", open(sys.argv[1]).read(), re.M))
CORE = {"incomplete_cooperative/game.py", "incomplete_cooperative/coalitions.py", "incomplete_cooperative/bounds.py",
        "incomplete_cooperative/coalition_ids.py", "incomplete_cooperative/functoolz.py"}
ids = []
for line in open(os.path.join(here, "properties.jsonl")):
    p = json.loads(line)
    if files & CORE or files & set(p["anchors"]["files"]):
        ids.append(p["id"])
print(" ".join(ids))
