#!/usr/bin/env python3
"""Compare a junit xml of the repository's suite with the stable_pass list of /root/.vp/BASELINE.json."""
import json, sys
import xml.etree.ElementTree as ET
b = json.load(open("/root/.vp/BASELINE.json"))
want = set(b["stable_pass"])
root = ET.parse(sys.argv[1]).getroot()
passed = set()
for tc in root.iter("testcase"):
    ident = f"{tc.get('classname')}::{tc.get('name')}"
    bad = any(ch.tag in ("failure", "error", "skipped") for ch in tc)
    if not bad:
        passed.add(ident)
missing = sorted(want - passed)
print(f"stable_pass={len(want)} passed_now={len(passed)} missing={len(missing)}")
for m in missing[:20]:
    print("  MISSING", m)
sys.exit(1 if missing else 0)
