#!/bin/sh
# tools/run_some.sh <tier> <ids...>: like run_all.sh for a subset
cd "$(dirname "$0")/.."
TIER=$1; shift
for id in "$@"; do
  /usr/bin/time -f "%es" bin/check $id --tier $TIER 2>&1 | grep -E "^(C[0-9]+ |VIOLATION|KNOWN|[0-9.]+s)" | tr '\n' ' '; echo
done
