#!/usr/bin/env python3
"""Regenerate MANIFEST.json from the table below (kept valid at all times)."""
import json, os, sys
HERE = os.path.dirname(os.path.dirname(os.path.abspath(__file__)))
sys.path.insert(0, HERE)
from tools.manifest_table import CHECKS, NOT_APPLICABLE

props = [json.loads(l) for l in open(os.path.join(HERE, "properties.jsonl"))]
ids = [p["id"] for p in props]
checks = []
for pid in ids:
    if pid not in CHECKS:
        continue
    c = CHECKS[pid]
    checks.append({
        "property_id": pid,
        "quick_cmd": f"bin/check {pid} --tier quick",
        "thorough_cmd": f"bin/check {pid} --tier thorough",
        "evidence_file": f"evidence/{pid}.json",
        "replay_cmd_template": f"bin/check {pid} --replay {{path}}",
        "engine": "pyvc",
        "level_claimed": {"category": c["level"], "text": c["text"], "design_ref": c.get("ref", "DESIGN.md section 8")},
        "level_note": c["note"],
        "technique": c["technique"],
    })
na = [{"property_id": pid, "reason": NOT_APPLICABLE.get(pid, "check not built yet in this session (planned, see DESIGN.md section 8)")}
      for pid in ids if pid not in CHECKS]
m = {
    "version": 1,
    "setup_cmd": "bin/ensure-env",
    "hooks": {"guard": "ICG_VERIF", "enable": "none needed: no hooks or instrumentation were added to the repository; "
              "checks load the source files of $REPO_ROOT (default /repo) on every run",
              "baseline_off_cmd": "cd /repo && /venv/bin/python -m pytest -ra -q -p no:cacheprovider --timeout=900 --continue-on-collection-errors",
              "source_commits": [], "add_only": True},
    "engines": [{"name": "pyvc", "path": "pyvc/", "serves_properties": [c["property_id"] for c in checks],
                 "kind_free_text": "contract-based deductive verification: CPython executes the real repository functions over "
                 "exact/symbolic scalars under a numpy model; contract clauses become SMT obligations discharged by z3 "
                 "(cvc5 second back end); counterexamples replayed on the real package"}],
    "checks": checks,
    "not_applicable": na,
    "notes": "See DESIGN.md. Exit codes of bin/check: 0 held, 1 violation (VIOLATION lines), 2 undecided, 3 checker error.",
}
json.dump(m, open(os.path.join(HERE, "MANIFEST.json"), "w"), indent=1)
import jsonschema
jsonschema.validate(m, json.load(open("/root/.vp/MANIFEST.schema.json")))
print("MANIFEST.json written:", len(checks), "checks,", len(na), "not_applicable")
