#!/bin/sh
# Run every registered quick (or $1=thorough) check on the current tree; print one line per check.
cd "$(dirname "$0")/.."
TIER=${1:-quick}
for id in $(python3 -c "import json;print(' '.join(c['property_id'] for c in json.load(open('MANIFEST.json'))['checks']))"); do
  /usr/bin/time -f "%es" bin/check $id --tier $TIER 2>&1 | grep -E "^(C[0-9]+ |VIOLATION|KNOWN|[0-9.]+s)" | tr '\n' ' '; echo
done
