#!/bin/sh
# tools/run_refactors.sh [ids...]: every behaviour-preserving change under refactors/ against the checks of the properties whose
# anchored files it touches (tools/checks_for_patch.py; refactors/<id>/checks overrides the list for core modules).  No line may be anything but HELD.
cd "$(dirname "$0")/.."
ids=${*:-$(ls -d refactors/*/ | xargs -n1 basename)}
for r in $ids; do
  if [ -f refactors/$r/checks ]; then cs=$(cat refactors/$r/checks)     # hand-picked subset for changes to core modules
  else cs=$(python3 tools/checks_for_patch.py refactors/$r/patch.diff); fi
  cs=$(echo $cs | tr ' ' '\n' | sort -u | tr '\n' ' ')
  [ -n "$ONLY" ] && cs=$(echo $cs | tr ' ' '\n' | grep -E "$ONLY" | tr '\n' ' ')
  echo "== $r: $cs"
  LINES_MAX=3 tools/try_mutant.sh refactors/$r/patch.diff $cs 2>&1 | grep -E "^C[0-9]+ |VIOLATION" | tee refactors/$r/checks.txt
done
