"""Finite-set algebra on bitmasks (spec vocabulary; written from the mathematics, not from the code)."""
from itertools import combinations


def popcount(x):
    return bin(x).count("1")


def members(x):
    return [i for i in range(x.bit_length()) if x >> i & 1]


def subsets(u):
    """All subsets of u (including 0 and u)."""
    s = u
    out = []
    while True:
        out.append(s)
        if s == 0:
            break
        s = (s - 1) & u
    return sorted(out)


def proper_nonempty_subsets(u):
    return [s for s in subsets(u) if s != 0 and s != u]


def supersets(s, n):
    full = (1 << n) - 1
    return sorted(s | t for t in subsets(full ^ s))


def strict_supersets(s, n):
    return [t for t in supersets(s, n) if t != s]


def minimal(n):
    """Ids of the minimal information: empty, singletons, grand coalition."""
    return sorted({0, (1 << n) - 1} | {1 << i for i in range(n)})


def by_size(n):
    return sorted(range(1 << n), key=lambda c: (popcount(c), c))


def splits(u):
    """Unordered splits {S, U\\S} of u into two non-empty parts (S < U^S)."""
    return [(s, u ^ s) for s in proper_nonempty_subsets(u) if s < (u ^ s)]


def set_partitions(u):
    """All partitions of the set u (as lists of bitmasks)."""
    ms = members(u)
    if not ms:
        return [[]]
    first = ms[0]
    rest = u & ~(1 << first)
    out = []
    for sub in subsets(rest):
        block = sub | (1 << first)
        for p in set_partitions(rest & ~sub):
            out.append([block] + p)
    return out
