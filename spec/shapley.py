"""Shapley value as the average marginal contribution over all n! orderings (the property's definition)."""
from fractions import Fraction
from itertools import permutations
from math import factorial


def ordering_coefficients(n, i):
    """coef[c] such that  phi_i(v) = sum_c coef[c] * v(c), obtained by enumerating the n! orderings."""
    coef = {}
    for order in permutations(range(n)):
        before = 0
        for p in order:
            if p == i:
                break
            before |= 1 << p
        coef[before | (1 << i)] = coef.get(before | (1 << i), 0) + 1
        coef[before] = coef.get(before, 0) - 1
    f = factorial(n)
    return {c: Fraction(k, f) for c, k in coef.items() if k}


def shapley_by_orderings(M, n, v, i):
    tot = M.const(0)
    for c, k in sorted(ordering_coefficients(n, i).items()):
        tot = tot + v[c] * M.const(k)
    return tot
