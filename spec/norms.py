"""Gap functions in the mathematical vocabulary of the properties."""
from math import comb

from .sets import popcount


def widths(lo, up):
    return [u - l for l, u in zip(lo, up)]


def l1(M, w):
    return M.sum_([M.abs_(x) for x in w])


def linf(M, w):
    return M.max_([M.abs_(x) for x in w])


def sumsq(M, w):
    return M.sum_([x * x for x in w])


def binomial_gap(M, n, w):
    """sum over coalitions S of w(S) / C(n, |S|)."""
    tot = M.const(0)
    for c in range(1 << n):
        tot = tot + w[c] / M.const(comb(n, popcount(c)))
    return tot
