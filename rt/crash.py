"""Crash injection for the real save_json (C20 replay / bounded layer): the k-th write / flush / close /
replace call raises; afterwards data.json must be byte-identical to the old or to the complete new file."""
from __future__ import annotations

import builtins
import io
import os
import pathlib
import shutil
import tempfile
from argparse import Namespace


class Crash(BaseException):
    pass


class _Budget:
    def __init__(self, k):
        self.left = k
        self.calls = 0

    def tick(self):
        self.calls += 1
        if self.left is not None:
            if self.left == 0:
                raise Crash()
            self.left -= 1


def _wrap_file(f, budget):
    class W:
        def write(self, s):
            # a crash in the middle of a write leaves a prefix behind
            if budget.left == 0:
                f.write(s[: len(s) // 2])
                f.flush()
            budget.tick()
            r = f.write(s)
            f.flush()
            return r

        def flush(self):
            return f.flush()

        def close(self):
            budget.tick()
            return f.close()

        def __enter__(self):
            return self

        def __exit__(self, et, ev, tb):
            if et is Crash:
                try:
                    f.close()
                except Exception:
                    pass
                return False
            self.close()
            return False

        def __getattr__(self, n):
            return getattr(f, n)
    return W()


def run_save(dirpath, earlier, rows, cols, crash_at):
    """Run the real save_json in dirpath after `earlier` completed saves; crash at effect number crash_at
    (None: no crash).  Returns (crashed, number_of_effect_points)."""
    import numpy as np
    from pyvc.mode import native_pkg
    save = native_pkg().mod("run.save")
    path = pathlib.Path(dirpath) / "data.json"

    def out(i):
        d = np.arange((rows + 1) * cols, dtype=float).reshape(rows + 1, cols) * (i + 1) + 0.5
        a = np.arange(rows * cols, dtype=float).reshape(rows, cols)
        return save.Output(d, a, Namespace(func=len, seed=i))
    for i in range(earlier):
        save.save_json(path, f"old{i}", out(i))
    budget = _Budget(crash_at)
    orig_open, orig_replace, orig_rename, orig_preplace = pathlib.Path.open, os.replace, os.rename, pathlib.Path.replace
    orig_builtin_open = builtins.open

    def p_open(self, mode="r", *a, **k):
        f = orig_open(self, mode, *a, **k)
        if "w" in mode or "a" in mode or "+" in mode:
            if budget.left == 0:
                f.close()       # the truncation has already happened when the crash hits right after open
            budget.tick()
            return _wrap_file(f, budget)
        return f

    def b_open(file, mode="r", *a, **k):
        f = orig_builtin_open(file, mode, *a, **k)
        if ("w" in mode or "a" in mode or "+" in mode) and str(file).startswith(str(dirpath)):
            if budget.left == 0:
                f.close()
            budget.tick()
            return _wrap_file(f, budget)
        return f

    def o_replace(a, b, *x, **k):
        budget.tick()
        return orig_replace(a, b, *x, **k)

    def o_rename(a, b, *x, **k):
        budget.tick()
        return orig_rename(a, b, *x, **k)

    def pp_replace(self, target):
        budget.tick()
        return orig_preplace(self, target)

    pathlib.Path.open, os.replace, os.rename, pathlib.Path.replace = p_open, o_replace, o_rename, pp_replace
    builtins.open = b_open
    crashed = False
    try:
        save.save_json(path, "new", out(99))
    except Crash:
        crashed = True
    finally:
        pathlib.Path.open, os.replace, os.rename, pathlib.Path.replace = orig_open, orig_replace, orig_rename, orig_preplace
        builtins.open = orig_builtin_open
    return crashed, budget.calls


def crash_sweep(earlier, rows, cols):
    """Every crash point of one save; returns a list of witnesses (crash point, state of the file)."""
    bad = []
    base = tempfile.mkdtemp(prefix="c20_")
    try:
        ref = os.path.join(base, "ref")
        os.makedirs(ref)
        _, points = run_save(ref, earlier, rows, cols, None)
        new_bytes = open(os.path.join(ref, "data.json"), "rb").read()
        old_dir = os.path.join(base, "old")
        os.makedirs(old_dir)
        if earlier:
            import numpy as np
            # produce the old file by the same earlier saves
            from pyvc.mode import native_pkg
            run_save(old_dir, earlier, rows, cols, 0) if False else None
        for k in range(points + 1):
            d = os.path.join(base, f"k{k}")
            os.makedirs(d)
            # old state: `earlier` completed saves (run_save redoes them without crash budget)
            old_bytes = None
            if earlier:
                tmp = os.path.join(base, f"pre{k}")
                os.makedirs(tmp)
                _prepare(tmp, earlier, rows, cols)
                shutil.copy(os.path.join(tmp, "data.json"), os.path.join(d, "data.json"))
                old_bytes = open(os.path.join(d, "data.json"), "rb").read()
                crashed, _ = run_save(d, 0, rows, cols, k)
            else:
                crashed, _ = run_save(d, 0, rows, cols, k)
            f = os.path.join(d, "data.json")
            now = open(f, "rb").read() if os.path.exists(f) else None
            if now != old_bytes and now != _expected_new(old_bytes, new_bytes, earlier):
                bad.append({"crash_point": k, "crashed": crashed, "file": "missing" if now is None else f"{len(now)} bytes",
                            "old": None if old_bytes is None else len(old_bytes), "new": len(new_bytes)})
    finally:
        shutil.rmtree(base, ignore_errors=True)
    return bad


def _prepare(d, earlier, rows, cols):
    import numpy as np
    from pyvc.mode import native_pkg
    save = native_pkg().mod("run.save")
    path = pathlib.Path(d) / "data.json"
    for i in range(earlier):
        dd = np.arange((rows + 1) * cols, dtype=float).reshape(rows + 1, cols) * (i + 1) + 0.5
        a = np.arange(rows * cols, dtype=float).reshape(rows, cols)
        save.save_json(path, f"old{i}", save.Output(dd, a, Namespace(func=len, seed=i)))


def _expected_new(old_bytes, new_bytes, earlier):
    return new_bytes
