"""Crash injection for the real save_json (C20 replay / bounded layer).

Every effect point of one save (opening for writing, each write, close, replace/rename) is hit once by a HARD KILL:
the save runs in a fork()ed child that calls os._exit() at the chosen point - no `finally`, no `__exit__`, no flushing
of Python's user-space buffers, exactly like SIGKILL / power loss of the process.  Two variants per point: buffers as
they are, and buffers flushed just before the kill (the kernel may have received any prefix).  Afterwards data.json
must be byte-identical to the old file or to the complete new file."""
from __future__ import annotations

import builtins
import os
import pathlib
import shutil
import tempfile
from argparse import Namespace


class _Budget:
    def __init__(self, k, flush):
        self.left = k
        self.calls = 0
        self.flush = flush
        self.open_files = []

    def tick(self):
        self.calls += 1
        if self.left is not None:
            if self.left == 0:
                if self.flush == "interrupt":
                    self.left = None
                    raise KeyboardInterrupt()      # an interruption delivered as an exception: finally blocks run
                if self.flush:
                    for f in self.open_files:
                        try:
                            f.flush()
                        except Exception:
                            pass
                os._exit(17)            # hard kill
            self.left -= 1


def _wrap_file(f, budget):
    budget.open_files.append(f)

    class W:
        def write(self, s):
            budget.tick()
            return f.write(s)

        def flush(self):
            return f.flush()

        def close(self):
            budget.tick()
            return f.close()

        def __enter__(self):
            return self

        def __exit__(self, et, ev, tb):
            self.close()
            return False

        def __getattr__(self, n):
            return getattr(f, n)
    return W()


def _output(save, i, rows, cols):
    import numpy as np
    d = np.arange((rows + 1) * cols, dtype=float).reshape(rows + 1, cols) * (i + 1) + 0.5
    a = np.arange(rows * cols, dtype=float).reshape(rows, cols)
    return save.Output(d, a, Namespace(func=len, seed=i))


def _prepare(d, earlier, rows, cols):
    from pyvc.mode import native_pkg
    save = native_pkg().mod("run.save")
    path = pathlib.Path(d) / "data.json"
    for i in range(earlier):
        save.save_json(path, f"old{i}", _output(save, i, rows, cols))


def _save_with_kill(dirpath, rows, cols, crash_at, flush, count_file=None):
    """In the CHILD: run the real save_json; os._exit(17) at effect number crash_at (None: never)."""
    from pyvc.mode import native_pkg
    save = native_pkg().mod("run.save")
    path = pathlib.Path(dirpath) / "data.json"
    budget = _Budget(crash_at, flush)
    orig_open, orig_replace, orig_rename, orig_preplace, orig_prename = (pathlib.Path.open, os.replace, os.rename,
                                                                       pathlib.Path.replace, pathlib.Path.rename)
    orig_builtin_open = builtins.open

    def p_open(self, mode="r", *a, **k):
        if "w" in mode or "a" in mode or "+" in mode:
            budget.tick()                       # a kill right before the file is opened
            f = orig_open(self, mode, *a, **k)
            budget.tick()                       # ... and right after (a truncation has already happened)
            return _wrap_file(f, budget)
        return orig_open(self, mode, *a, **k)

    def b_open(file, mode="r", *a, **k):
        if ("w" in mode or "a" in mode or "+" in mode) and str(file).startswith(str(dirpath)):
            budget.tick()
            f = orig_builtin_open(file, mode, *a, **k)
            budget.tick()
            return _wrap_file(f, budget)
        return orig_builtin_open(file, mode, *a, **k)

    def mk(orig):
        def wrapped(*a, **k):
            budget.tick()
            r = orig(*a, **k)
            budget.tick()
            return r
        return wrapped

    pathlib.Path.open = p_open
    builtins.open = b_open
    os.replace, os.rename = mk(orig_replace), mk(orig_rename)
    pathlib.Path.replace, pathlib.Path.rename = mk(orig_preplace), mk(orig_prename)
    save.save_json(path, "new", _output(save, 99, rows, cols))
    if count_file:
        with orig_builtin_open(count_file, "w") as f:
            f.write(str(budget.calls))


def _child(fn):
    pid = os.fork()
    if pid == 0:
        try:
            fn()
            os._exit(0)
        except KeyboardInterrupt:
            import sys
            sys.stdout.flush()
            os._exit(18)          # interrupted by an exception: normal unwinding has happened
        except BaseException:
            os._exit(3)
    _, status = os.waitpid(pid, 0)
    return os.waitstatus_to_exitcode(status)


def crash_sweep(earlier, rows, cols):
    """Every kill point of one save; returns a list of witnesses."""
    bad = []
    from pyvc.mode import native_pkg
    native_pkg().mod("run.save")          # import in the parent, so that the fork()ed children do not pay for it
    base = tempfile.mkdtemp(prefix="c20_")
    try:
        pre = os.path.join(base, "pre")
        os.makedirs(pre)
        _prepare(pre, earlier, rows, cols)
        old_bytes = open(os.path.join(pre, "data.json"), "rb").read() if earlier else None
        ref = os.path.join(base, "ref")
        shutil.copytree(pre, ref)
        cf = os.path.join(base, "count")
        rc = _child(lambda: _save_with_kill(ref, rows, cols, None, False, cf))
        if rc != 0:
            return [{"what": "the uninterrupted save failed in the child", "rc": rc}]
        points = int(open(cf).read())
        new_bytes = open(os.path.join(ref, "data.json"), "rb").read()
        ks = range(points) if points <= 160 else _pick(points, 160)      # many write chunks: first/last 20 and an even sample
        for k in ks:
            for flush in (False, True, "interrupt"):
                d = os.path.join(base, f"k{k}{'f' if flush is True else 'i' if flush else ''}")
                shutil.copytree(pre, d)
                rc = _child(lambda: _save_with_kill(d, rows, cols, k, flush))
                f = os.path.join(d, "data.json")
                now = open(f, "rb").read() if os.path.exists(f) else None
                if now != old_bytes and now != new_bytes:
                    bad.append({"kill_point": k, "flushed_before_kill": flush, "child_exit": rc,
                                "file": "missing" if now is None else f"{len(now)} bytes",
                                "old": None if old_bytes is None else len(old_bytes), "new": len(new_bytes)})
                shutil.rmtree(d, ignore_errors=True)
    finally:
        shutil.rmtree(base, ignore_errors=True)
    return bad


# ---- API-independent kill points -------------------------------------------------------------------------------------------
# The wrappers above intercept Path.open / open / os.replace / os.rename.  A save routine may reach the file system through
# other doors (os.open + os.fdopen, tempfile, shutil.move, io.open ...).  The profile hook below counts EVERY C-level call
# whose name is a file-system verb, before and after it runs, whatever object it is called on.

_FS_VERBS = {"write", "writelines", "close", "replace", "rename", "open", "fdopen", "truncate", "unlink", "remove", "flush",
             "fsync", "fdatasync", "link", "symlink", "mkstemp", "move", "copyfile", "sendfile", "ftruncate"}


def _flush_everything():
    import gc
    import io
    for o in gc.get_objects():
        try:
            if type(o).__module__ in ("_io", "io") and hasattr(o, "flush") and not o.closed and o.writable() and o.fileno() > 2:
                o.flush()
        except Exception:
            pass


def _save_with_profile_kill(dirpath, rows, cols, crash_at, flush, count_file=None, name="new", idx=99):
    """In the CHILD: run the real save_json under sys.setprofile; die at file-system event number crash_at."""
    import sys
    from pyvc.mode import native_pkg
    save = native_pkg().mod("run.save")
    path = pathlib.Path(dirpath) / "data.json"
    state = {"n": 0}

    def prof(frame, event, arg):
        if event in ("c_call", "c_return") and getattr(arg, "__name__", "") in _FS_VERBS:
            if crash_at is not None and state["n"] == crash_at:
                sys.setprofile(None)
                if flush == "interrupt":
                    state["n"] += 1
                    raise KeyboardInterrupt()
                if flush:
                    _flush_everything()
                os._exit(17)
            state["n"] += 1
    out = _output(save, idx, rows, cols)
    sys.setprofile(prof)
    try:
        save.save_json(path, name, out)
    finally:
        sys.setprofile(None)
    if count_file:
        with open(count_file, "w") as f:
            f.write(str(state["n"]))


def _pick(points, limit=90):
    if points <= limit:
        return list(range(points))
    head = list(range(20))
    tail = list(range(points - 20, points))
    step = max(1, (points - 40) // (limit - 40))
    return sorted(set(head + tail + list(range(20, points - 20, step))))


def other_filesystem_root():
    """A writable directory on a DIFFERENT file system than the system temporary directory (a results directory is not
    promised to share a file system with /tmp), or None if the machine has none."""
    try:
        t = os.stat(tempfile.gettempdir()).st_dev
        for cand in ("/dev/shm", "/run/shm", os.path.expanduser("~"), "/var/tmp"):
            if os.path.isdir(cand) and os.access(cand, os.W_OK) and os.stat(cand).st_dev != t:
                return cand
    except OSError:
        pass
    return None


def profile_sweep(earlier, rows, cols, root=None):
    """Like crash_sweep, with the API-independent kill points (sampled when there are many).  root: where the results
    directory is created (default: the system temporary directory)."""
    bad = []
    from pyvc.mode import native_pkg
    native_pkg().mod("run.save")
    base = tempfile.mkdtemp(prefix="c20p_", dir=root)
    try:
        pre = os.path.join(base, "pre")
        os.makedirs(pre)
        _prepare(pre, earlier, rows, cols)
        old_bytes = open(os.path.join(pre, "data.json"), "rb").read() if earlier else None
        ref = os.path.join(base, "ref")
        shutil.copytree(pre, ref)
        cf = os.path.join(base, "count")
        rc = _child(lambda: _save_with_profile_kill(ref, rows, cols, None, False, cf))
        if rc != 0:
            return [{"what": "the uninterrupted save failed in the child", "rc": rc}]
        points = int(open(cf).read())
        new_bytes = open(os.path.join(ref, "data.json"), "rb").read()
        for k in _pick(points):
            for flush in (False, True):
                d = os.path.join(base, f"k{k}{'f' if flush else ''}")
                shutil.copytree(pre, d)
                rc = _child(lambda: _save_with_profile_kill(d, rows, cols, k, flush))
                f = os.path.join(d, "data.json")
                now = open(f, "rb").read() if os.path.exists(f) else None
                if now != old_bytes and now != new_bytes:
                    bad.append({"kill_event": k, "of": points, "flushed_before_kill": flush, "child_exit": rc,
                                "file": "missing" if now is None else f"{len(now)} bytes",
                                "old": None if old_bytes is None else len(old_bytes), "new": len(new_bytes)})
                shutil.rmtree(d, ignore_errors=True)
                if len(bad) >= 3:
                    return bad
    finally:
        shutil.rmtree(base, ignore_errors=True)
    return bad


def crash_then_save(earlier, rows, cols, big=(40, 30)):
    """History 'a save of a LARGE result is killed, then a small result is saved without interruption': whatever the
    crashed save left in the directory (temporary files of any name, longer than the next document), the next save must
    produce exactly the document it would have produced in a clean directory, and every earlier run must survive."""
    bad = []
    from pyvc.mode import native_pkg
    native_pkg().mod("run.save")
    base = tempfile.mkdtemp(prefix="c20h_")
    try:
        pre = os.path.join(base, "pre")
        os.makedirs(pre)
        _prepare(pre, earlier, rows, cols)
        old_bytes = open(os.path.join(pre, "data.json"), "rb").read() if earlier else None
        # reference documents: old + small, and old + big + small (if the kill came after the big save completed)
        ref_small = os.path.join(base, "ref_small")
        shutil.copytree(pre, ref_small)
        cf = os.path.join(base, "count")
        if _child(lambda: _save_with_profile_kill(ref_small, rows, cols, None, False)) != 0:
            return [{"what": "the uninterrupted save failed in the child"}]
        want_small = open(os.path.join(ref_small, "data.json"), "rb").read()
        ref_big = os.path.join(base, "ref_big")
        shutil.copytree(pre, ref_big)
        if _child(lambda: _save_with_profile_kill(ref_big, big[0], big[1], None, False, cf, name="big", idx=7)) != 0:
            return [{"what": "the uninterrupted large save failed in the child"}]
        points = int(open(cf).read())
        big_bytes = open(os.path.join(ref_big, "data.json"), "rb").read()
        if _child(lambda: _save_with_profile_kill(ref_big, rows, cols, None, False)) != 0:
            return [{"what": "the save after the large save failed in the child"}]
        want_big_small = open(os.path.join(ref_big, "data.json"), "rb").read()
        # kill the large save late (most bytes on disk), flushed and unflushed, at a few events near the end and in the middle
        ks = sorted(set([points // 2, (3 * points) // 4] + list(range(max(0, points - 12), points))))
        for k in ks:
            for flush in (True, False):
                d = os.path.join(base, f"h{k}{'f' if flush else ''}")
                shutil.copytree(pre, d)
                _child(lambda: _save_with_profile_kill(d, big[0], big[1], k, flush, name="big", idx=7))
                f = os.path.join(d, "data.json")
                mid = open(f, "rb").read() if os.path.exists(f) else None
                if mid != old_bytes and mid != big_bytes:
                    bad.append({"what": "after the killed large save data.json is neither old nor new", "kill_event": k})
                    continue
                left = sorted(x for x in os.listdir(d) if x != "data.json")
                rc = _child(lambda: _save_with_profile_kill(d, rows, cols, None, False))
                now = open(f, "rb").read() if os.path.exists(f) else None
                want = want_small if mid == old_bytes else want_big_small
                if rc != 0 or now != want:
                    bad.append({"what": "a save that follows a killed save does not produce the document it produces in a clean directory",
                                "kill_event_of_the_large_save": k, "of": points, "flushed_before_kill": flush,
                                "left_behind_by_the_killed_save": left, "child_exit": rc,
                                "file": "missing" if now is None else f"{len(now)} bytes", "expected": f"{len(want)} bytes"})
                shutil.rmtree(d, ignore_errors=True)
                if len(bad) >= 3:
                    return bad
    finally:
        shutil.rmtree(base, ignore_errors=True)
    return bad
