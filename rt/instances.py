"""Hand-picked inputs on which the repetitions of the SAM approximation actually change bounds (they almost never do
on random games: 0 of 1200 random coverage games at n=6,7).  Two instances contributed by the adversarial rounds
(seeded/C04-b, seeded/C07-c) plus their images under random relabellings of the players."""
from __future__ import annotations

from spec.sets import minimal


def coverage_game(covers):
    n = len(covers)
    v = [0.0] * (1 << n)
    for c in range(1, 1 << n):
        u = set()
        for i in range(n):
            if c >> i & 1:
                u |= set(covers[i])
        v[c] = -float(len(u))
    return v


def _mask(players):
    return sum(1 << p for p in players)


def _relabel(n, v, known, extra, perm):
    def img(c):
        return sum(1 << perm[i] for i in range(n) if c >> i & 1)
    w = [0.0] * (1 << n)
    for c in range(1 << n):
        w[img(c)] = v[c]
    return w, sorted(img(c) for c in known), [img(c) for c in extra]


def repetition_sensitive(rng, count):
    """Yield (n, v, known ids, reveal sequence) tuples."""
    base = [
        # 6 players; reveals {2,3,4} (raises bounds through the repetitions) then {0,2} (uninformative)
        (["abc", "a", "b", "bde", "bdf", "uvwxyz"],
         [(0, 1, 2), (0, 3), (3, 5), (4, 5), (0, 1, 2, 4), (0, 1, 2, 3, 5)], [(2, 3, 4), (0, 2)]),
        # 7 players; a repetition raises lower{0,1,2,3,4}, which binds upper{5,6}
        (["abc", "abc", "a", "defgh", "defgh", "uvw", "xyz"], [(0, 1, 2), (2, 3, 4)], [(5, 6), (0, 1)]),
    ]
    out = []
    for covers, known, reveals in base:
        n = len(covers)
        v = coverage_game(covers)
        K = sorted(set(minimal(n)) | {_mask(p) for p in known})
        R = [_mask(p) for p in reveals]
        out.append((n, v, K, R))
        for _ in range(count):
            perm = list(range(n))
            rng.shuffle(perm)
            w, K2, R2 = _relabel(n, v, K, R, perm)
            out.append((n, w, K2, R2))
    return out
