"""Input generators for the bounded (run-time) layer.  All randomness comes from the given
random.Random so that VERIF_SEED reproduces a run."""
from __future__ import annotations

from spec.sets import by_size, minimal, popcount, splits, subsets


def superadditive_game(rng, n, kind="int", negative=False, monotone=False):
    """A random superadditive game as a list of 2^n numbers (v[0] = 0).

    kind: 'int' (small integers), 'dyadic' (multiples of 1/8), 'float' (arbitrary doubles).
    negative: add a random additive game with negative singletons (keeps superadditivity).
    monotone: make it monotone non-increasing as well (values <= 0, SAM class)."""
    v = [0.0] * (1 << n)
    if monotone:
        # v(S) = -f(S) with f monotone submodular-ish cover function: f = weighted coverage
        m = rng.randint(2, 2 * n)
        w = [rng.randint(1, 4) for _ in range(m)]
        cover = [rng.randrange(1, 1 << m) for _ in range(n)]
        for c in range(1, 1 << n):
            u = 0
            for i in range(n):
                if c >> i & 1:
                    u |= cover[i]
            v[c] = -float(sum(w[j] for j in range(m) if u >> j & 1))
        scale = {"int": 1.0, "dyadic": 0.125, "float": rng.uniform(0.1, 3.0)}[kind]
        return [x * scale for x in v]
    for c in by_size(n):
        if c == 0:
            continue
        sp = splits(c)
        if not sp:
            v[c] = float(rng.randint(0, 3))
            continue
        base = max(v[s] + v[t] for s, t in sp)
        slack = rng.choice([0, 0, 1, 2, 3])
        v[c] = base + slack
    if kind == "dyadic":
        v = [x / 8.0 for x in v]
    elif kind == "float":
        f = rng.uniform(0.1, 7.3)
        v = [x * f for x in v]
    if negative:
        a = [rng.randint(-5, 2) * (1.0 if kind == "int" else 0.125 if kind == "dyadic" else rng.uniform(0.3, 1.7))
             for _ in range(n)]
        v = [v[c] + sum(a[i] for i in range(n) if c >> i & 1) for c in range(1 << n)]
        v[0] = 0.0
    return v


def knowledge(rng, n, p=None):
    """A random knowledge set containing the minimal information (as a set of ids)."""
    p = rng.random() if p is None else p
    mini = set(minimal(n))
    return mini | {c for c in range(1 << n) if rng.random() < p}


def game_inputs(v, known, n, stale=None, rng=None, tag=""):
    """Input dictionary for the bounds scenarios."""
    d = {}
    for c in range(1, 1 << n):
        d[f"v{c}"] = v[c]
        d[f"k{c}"] = c in known
        if rng is not None:
            d[f"{tag}slo{c}"] = float(rng.randint(-9, 9))
            d[f"{tag}sup{c}"] = float(rng.randint(-9, 9))
    return d


def is_superadditive(v, n, tol=0.0):
    return all(v[s] + v[t] <= v[s | t] + tol for u in range(1, 1 << n) for s, t in splits(u))
