"""Input generators for the bounded (run-time) layer.  All randomness comes from the given
random.Random so that VERIF_SEED reproduces a run."""
from __future__ import annotations

from spec.sets import by_size, minimal, popcount, splits, subsets


def superadditive_game(rng, n, kind="int", negative=False, monotone=False):
    """A random superadditive game as a list of 2^n numbers (v[0] = 0).

    kind: 'int' (small integers), 'dyadic' (multiples of 1/8), 'float' (arbitrary doubles).
    negative: add a random additive game with negative singletons (keeps superadditivity).
    monotone: make it monotone non-increasing as well (values <= 0, SAM class)."""
    v = [0.0] * (1 << n)
    if monotone:
        # v(S) = -f(S) with f monotone submodular-ish cover function: f = weighted coverage
        m = rng.randint(2, 2 * n)
        w = [rng.randint(1, 4) for _ in range(m)]
        cover = [rng.randrange(1, 1 << m) for _ in range(n)]
        for c in range(1, 1 << n):
            u = 0
            for i in range(n):
                if c >> i & 1:
                    u |= cover[i]
            v[c] = -float(sum(w[j] for j in range(m) if u >> j & 1))
        scale = {"int": 1.0, "dyadic": 0.125, "float": rng.uniform(0.1, 3.0)}[kind]
        return [x * scale for x in v]
    for c in by_size(n):
        if c == 0:
            continue
        sp = splits(c)
        if not sp:
            v[c] = float(rng.randint(0, 3))
            continue
        base = max(v[s] + v[t] for s, t in sp)
        slack = rng.choice([0, 0, 1, 2, 3])
        v[c] = base + slack
    if kind == "dyadic":
        v = [x / 8.0 for x in v]
    elif kind == "float":
        f = rng.uniform(0.1, 7.3)
        v = [x * f for x in v]
    if negative:
        a = [rng.randint(-5, 2) * (1.0 if kind == "int" else 0.125 if kind == "dyadic" else rng.uniform(0.3, 1.7))
             for _ in range(n)]
        v = [v[c] + sum(a[i] for i in range(n) if c >> i & 1) for c in range(1 << n)]
        v[0] = 0.0
    return v


def knowledge(rng, n, p=None):
    """A random knowledge set containing the minimal information (as a set of ids)."""
    p = rng.random() if p is None else p
    mini = set(minimal(n))
    return mini | {c for c in range(1 << n) if rng.random() < p}


def game_inputs(v, known, n, stale=None, rng=None, tag=""):
    """Input dictionary for the bounds scenarios."""
    d = {}
    for c in range(1, 1 << n):
        d[f"v{c}"] = v[c]
        d[f"k{c}"] = c in known
        if rng is not None:
            d[f"{tag}slo{c}"] = float(rng.randint(-9, 9))
            d[f"{tag}sup{c}"] = float(rng.randint(-9, 9))
    return d


def is_superadditive(v, n, tol=0.0):
    return all(v[s] + v[t] <= v[s | t] + tol for u in range(1, 1 << n) for s, t in splits(u))


class AutoGiven(dict):
    """Inputs invented on demand, for the generic bounded stand-in of a scenario the engine could not decide.

    A name the scenario asks for is drawn when it is first requested (and remembered, so the replay file carries
    it): `<prefix>v<c>` names form one random game per prefix (superadditive; also monotone non-increasing when
    `monotone`, which is inside both assumed classes), booleans are coin flips with a per-sample bias, integers are
    taken near their lower limit, every other real is a small integer / dyadic number.  Samples that fail a
    scenario's precondition are skipped by the caller (and counted)."""
    auto = True

    def __init__(self, rng, n, kind="int", monotone=False, negative=False):
        super().__init__()
        import re
        self._rng, self._n, self._kind, self._monotone, self._negative = rng, n, kind, monotone, negative
        self._games = {}
        self._p = rng.choice([0.0, 0.2, 0.5, 0.8, 1.0, rng.random()])
        self._re = re.compile(r"^(.*?)v(\d+)$")

    def _small(self):
        r = self._rng
        x = float(r.randint(-6, 9))
        if self._kind == "dyadic":
            x /= 8.0
        elif self._kind == "float":
            x *= r.uniform(0.1, 2.7)
        return x

    def draw_real(self, name):
        if name in self:
            return self[name]
        m = self._re.match(name)
        if m and self._n and int(m.group(2)) < (1 << self._n):
            g = self._games.get(m.group(1))
            if g is None:
                g = self._games[m.group(1)] = superadditive_game(self._rng, self._n, self._kind, negative=self._negative,
                                                                   monotone=self._monotone)
            v = g[int(m.group(2))]
        else:
            v = self._small()
        self[name] = v
        return v

    def draw_bool(self, name):
        if name not in self:
            self[name] = self._rng.random() < self._p
        return self[name]

    def draw_int(self, name, lo, hi):
        if name not in self:
            lo = 0 if lo is None else lo
            top = lo + 4 if hi is None else hi
            self[name] = self._rng.randint(lo, max(lo, top))
        return self[name]

    def draw_bv(self, name, w):
        if name not in self:
            self[name] = self._rng.getrandbits(w) if self._rng.random() < 0.7 else self._rng.choice([0, 1, (1 << w) - 1, 1 << (w - 1)])
        return self[name]


def auto_inputs(rng, params, count):
    n = params.get("n") if isinstance(params.get("n"), int) else None
    for i in range(count):
        # integers and dyadic numbers only: the scenarios compare the code with exact specifications, and on arbitrary
        # doubles an exact test inside the code (`width == 0`, ties between rewards) and its tolerant counterpart in the
        # scenario may legitimately disagree - that would be an alarm of the stand-in, not of the code
        yield AutoGiven(rng, n, kind=("int", "dyadic")[i % 2], monotone=(i % 4 < 2), negative=(i % 4 == 1))
