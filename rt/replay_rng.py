"""A numpy Generator that replays recorded draws (counterexample replay for C10 / C16)."""
from __future__ import annotations

import itertools
from fractions import Fraction

import numpy as np


class ReplayGenerator(np.random.Generator):
    def __init__(self, draws):
        super().__init__(np.random.PCG64(0))
        self._draws = list(draws)
        self._pos = 0

    def _next(self):
        if self._pos >= len(self._draws):
            raise RuntimeError("replay generator ran out of recorded draws (the call sequence differs from the model's)")
        x = self._draws[self._pos]
        self._pos += 1
        return float(Fraction(x)) if isinstance(x, str) else x

    def _arr(self, size):
        if size is None:
            return float(self._next())
        shape = (size,) if isinstance(size, (int, np.integer)) else tuple(size)
        a = np.empty(shape)
        for idx in np.ndindex(*shape):
            a[idx] = float(self._next())
        return a

    def random(self, size=None, **kw):
        return self._arr(size)

    def uniform(self, low=0.0, high=1.0, size=None):
        return self._arr(size)

    def triangular(self, left, mode, right, size=None):
        return self._arr(size)

    def beta(self, a, b, size=None):
        return self._arr(size)

    def poisson(self, lam=1.0, size=None):
        return self._arr(size)

    def integers(self, low, high=None, size=None, **kw):
        if high is None:
            low, high = 0, low
        return np.int64(int(low) + int(self._next()))

    def permutation(self, x):
        n = int(x) if isinstance(x, (int, np.integer)) else len(x)
        perms = list(itertools.permutations(range(n)))
        return np.array(perms[int(self._next())])

    def choice(self, a, size=None, **kw):
        i = int(self._next())
        return i if isinstance(a, (int, np.integer)) else a[i]


def draws_from_inputs(inputs):
    keys = sorted(k for k in inputs if k.startswith("draw") and k[4:].isdigit())
    return [inputs[k] for k in keys]
