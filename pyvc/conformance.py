"""Conformance pass (assumption A2/A3), run by every check:

1. every re-implemented numpy function of pyvc.symnp is run on random CONCRETE inputs (small integers and dyadic
   rationals, so that float64 arithmetic is exact) through the model and through real numpy and must agree exactly;
2. CPython cross-check: real functions under contract are run on concrete inputs both under the model (exact
   rationals, rewritten source) and natively (float64, unmodified source) and must agree exactly.
A mismatch is a checker error (exit 3), never a verdict."""
from __future__ import annotations

import random
from fractions import Fraction

import numpy as np

from . import symnp
from .core import SB, SV


def _to_float(x):
    if isinstance(x, SV):
        return float(x.c)
    if isinstance(x, SB):
        return bool(x.c)
    if isinstance(x, np.ndarray):
        if x.dtype == object:
            return np.array([_to_float(c) for c in x.flat]).reshape(x.shape)
        return np.asarray(x)
    return x


def _same(a, b):
    a, b = _to_float(a), _to_float(b)
    a, b = np.asarray(a), np.asarray(b)
    if a.shape != b.shape:
        return False
    if a.dtype == bool or b.dtype == bool:
        return bool(np.array_equal(a.astype(bool), b.astype(bool)))
    return bool(np.array_equal(a.astype(float), b.astype(float)))


def numpy_model(rng, rounds=40):
    cases = mism = 0
    bad = []

    def vec(n):
        return np.array([rng.randint(-8, 8) / rng.choice([1, 2, 4]) for _ in range(n)], dtype=float)

    for _ in range(rounds):
        n = rng.randint(1, 7)
        a, b = vec(n), vec(n)
        sa, sb = symnp.array(a), symnp.array(b)
        mask = np.array([rng.random() < 0.5 for _ in range(n)])
        idx = np.array([rng.randrange(n) for _ in range(rng.randint(1, n))])
        tests = [
            ("max", lambda: symnp.max(sa), lambda: np.max(a)),
            ("min", lambda: symnp.min(sa), lambda: np.min(a)),
            ("max.initial", lambda: symnp.max(sa, initial=0), lambda: np.max(a, initial=0)),
            ("sum", lambda: symnp.sum(sa), lambda: np.sum(a)),
            ("mean", lambda: symnp.mean(sa), lambda: np.mean(a)),
            ("add", lambda: sa + sb, lambda: a + b),
            ("sub", lambda: sa - sb, lambda: a - b),
            ("mul_mask", lambda: sa * mask, lambda: a * mask),
            ("one_minus_mask", lambda: sa * (1 - mask), lambda: a * (1 - mask)),
            ("le", lambda: sa <= sb, lambda: a <= b),
            ("eq", lambda: sa == sb, lambda: a == b),
            ("all", lambda: symnp.all(sa <= sb), lambda: np.all(a <= b)),
            ("any", lambda: symnp.any(sa > sb), lambda: np.any(a > b)),
            ("logical_or", lambda: symnp.logical_or(sa <= sb, sa == 0), lambda: np.logical_or(a <= b, a == 0)),
            ("logical_not", lambda: symnp.logical_not(sa <= sb), lambda: np.logical_not(a <= b)),
            ("invert", lambda: symnp.invert(sa == sb), lambda: np.invert(a == b)),
            ("isclose", lambda: symnp.isclose(sa, sb, rtol=0.25, atol=0), lambda: np.isclose(a, b, rtol=0.25, atol=0)),
            ("fancy", lambda: sa[idx], lambda: a[idx]),
            ("bool_index", lambda: sa[mask], lambda: a[mask]),
            ("norm1", lambda: symnp.linalg.norm(sa - sb, 1), lambda: np.linalg.norm(a - b, 1)),
            ("norminf", lambda: symnp.linalg.norm(sa - sb, np.inf), lambda: np.linalg.norm(a - b, np.inf)),
            ("argmin", lambda: symnp.argmin(sa), lambda: np.argmin(a)),
            ("argmax", lambda: symnp.argmax(sa), lambda: np.argmax(a)),
            ("where1", lambda: symnp.where(sa > 0)[0], lambda: np.where(a > 0)[0]),
            ("bincount", lambda: symnp.bincount(np.array([i % 3 for i in range(n)]), weights=sa),
             lambda: np.bincount(np.array([i % 3 for i in range(n)]), weights=a)),
            ("vstack.T", lambda: symnp.vstack([sa, sb]).T, lambda: np.vstack([a, b]).T),
            ("fromiter", lambda: symnp.fromiter((x for x in a), symnp.float64, n), lambda: np.fromiter((x for x in a), float, n)),
            ("astype_bool", lambda: sa.astype(bool), lambda: a.astype(bool)),
            ("abs", lambda: symnp.abs(sa), lambda: np.abs(a)),
            ("neg", lambda: -sa, lambda: -a),
            ("div_scalar", lambda: sa / 4, lambda: a / 4),
            ("max.where", lambda: symnp.max(sa, initial=-1, where=mask), lambda: np.max(a, initial=-1, where=mask)),
            ("min.where", lambda: symnp.min(sa, initial=3, where=symnp.logical_not(mask)), lambda: np.min(a, initial=3, where=np.logical_not(mask))),
            ("round0", lambda: symnp.round(sa), lambda: np.round(a)),
            ("round1", lambda: symnp.round(sa * 3, 1), lambda: np.round(a * 3, 1)),
            ("round.method", lambda: (sa / 4).round(1), lambda: (a / 4).round(1)),
            ("var~", lambda: symnp.var(sa), lambda: np.var(a)),
            ("var.axis1~", lambda: symnp.var(symnp.vstack([sa, sb]), 1), lambda: np.var(np.vstack([a, b]), 1)),
        ]

        def copyto():
            d = symnp.array(a)
            symnp.copyto(d, sb, where=mask)
            return d

        def copyto_np():
            d = a.copy()
            np.copyto(d, b, where=mask)
            return d

        def inplace():
            t = symnp.array(np.vstack([a, b]))
            col = t[:, 0]
            col /= 2
            t[1] += sa
            return t

        def inplace_np():
            t = np.vstack([a, b]).copy()
            col = t[:, 0]
            col /= 2
            t[1] += a
            return t

        tests += [("copyto", copyto, copyto_np), ("inplace_views", inplace, inplace_np)]
        if (a != 0).all():
            tests.append(("div", lambda: sb / sa, lambda: b / a))
        for name, f, g in tests:
            cases += 1
            try:
                if name.endswith("~"):      # the exact result against numpy's rounded one
                    ok = bool(np.allclose(np.asarray(_to_float(f()), dtype=float), np.asarray(g(), dtype=float), rtol=1e-12, atol=1e-12))
                else:
                    ok = _same(f(), g())
            except Exception as e:
                ok = False
                name += f" ({type(e).__name__}: {e})"
            if not ok:
                mism += 1
                bad.append(name)
    return cases, mism, sorted(set(bad))[:10]


def guarded_model(rng, rounds=25):
    """The guarded part of the model (selections by a SYMBOLIC mask: reads, stores, where, size, isclose, all) cannot be
    reached with concrete inputs.  Here the mask cells are Boolean symbols, the operation is run through the model, the
    resulting terms are evaluated under a concrete assignment of the symbols, and the outcome must equal what real
    numpy gives for that concrete mask."""
    import z3
    cases = mism = 0
    bad = []

    def ev(x, pairs):
        if isinstance(x, SV):
            if x.c is not None:
                return float(x.c)
            t = z3.simplify(z3.substitute(x.t, *pairs))
            return float(Fraction(t.numerator_as_long(), t.denominator_as_long()))
        if isinstance(x, SB):
            if x.c is not None:
                return bool(x.c)
            return z3.is_true(z3.simplify(z3.substitute(x.t, *pairs)))
        if isinstance(x, symnp.GA):
            return np.array([ev(v, pairs) for g, v in zip(x.guards, np.asarray(x.vals).flat) if ev(g, pairs)])
        if isinstance(x, np.ndarray):
            if x.dtype == object:
                return np.array([ev(c, pairs) for c in x.flat]).reshape(x.shape)
            return np.asarray(x)
        return x

    for r in range(rounds):
        n = rng.randint(1, 6)
        a = np.array([rng.randint(-8, 8) / rng.choice([1, 2, 4]) for _ in range(n)], dtype=float)
        b = np.array([rng.randint(-8, 8) / rng.choice([1, 2, 4]) for _ in range(n)], dtype=float)
        mask = np.array([rng.random() < 0.5 for _ in range(n)])
        syms = [z3.Bool(f"conf.m{r}.{i}") for i in range(n)]
        pairs = [(sy, z3.BoolVal(bool(m))) for sy, m in zip(syms, mask)]
        smask = np.empty(n, dtype=object)
        for i, sy in enumerate(syms):
            smask[i] = SB(t=sy)
        smask = smask.view(symnp.VArr)
        idx = np.array([rng.randrange(n) for _ in range(rng.randint(1, n + 2))])
        tab = np.array([[float(rng.randint(0, 1)), rng.randint(-5, 5) / 2, rng.randint(-5, 5) / 2] for _ in range(n)])

        def store_scalar():
            d = symnp.array(a)
            d[smask] = 5
            return d

        def store_scalar_np():
            d = a.copy()
            d[mask] = 5
            return d

        def store_sel():
            d = symnp.array(a)
            d[smask] = symnp.array(b)[smask]
            return d

        def store_sel_np():
            d = a.copy()
            d[mask] = b[mask]
            return d

        def store_rows():
            t = symnp.array(tab)
            sidx = idx.view(symnp.VArr)
            writable = sidx[smask[sidx]]
            scratch = symnp.zeros(n, dtype=float)
            scratch[sidx] = symnp.array(b)[sidx] if len(idx) <= n else 0
            t[writable, 2] = scratch[writable]
            return t

        def store_rows_np():
            t = tab.copy()
            writable = idx[mask[idx]]
            scratch = np.zeros(n)
            scratch[idx] = b[idx] if len(idx) <= n else 0
            t[writable, 2] = scratch[writable]
            return t

        def store_2d():
            t = symnp.array(np.vstack([a, b]))
            m2 = np.empty((2, n), dtype=object)
            m2[0], m2[1] = smask, symnp.logical_not(smask)
            t[m2.view(symnp.VArr)] = 7
            return t

        def store_2d_np():
            t = np.vstack([a, b]).copy()
            t[np.vstack([mask, ~mask])] = 7
            return t

        sa, sb = symnp.array(a), symnp.array(b)
        tests = [
            ("g.store_2d_mask", store_2d, store_2d_np),
            ("g.read", lambda: sa[smask], lambda: a[mask]),
            ("g.store_scalar", store_scalar, store_scalar_np),
            ("g.store_selection", store_sel, store_sel_np),
            ("g.store_rows_column", store_rows, store_rows_np),
            ("g.rows_column_read", lambda: symnp.array(tab)[idx.view(symnp.VArr)[smask[idx.view(symnp.VArr)]], 1], lambda: tab[idx[mask[idx]], 1]),
            ("g.where3", lambda: symnp.where(smask, sa, sb), lambda: np.where(mask, a, b)),
            ("g.where3_sel", lambda: symnp.where(sa[smask] > 0, sa[smask], 0), lambda: np.where(a[mask] > 0, a[mask], 0)),
            ("g.size", lambda: sa[smask].size, lambda: a[mask].size),
            ("g.all", lambda: symnp.all(sa[smask] <= sb[smask]), lambda: np.all(a[mask] <= b[mask])),
            ("g.any", lambda: symnp.any(sa[smask] > sb[smask]), lambda: np.any(a[mask] > b[mask])),
            ("g.isclose", lambda: symnp.isclose(sa[smask], 1.0, rtol=0.5, atol=0), lambda: np.isclose(a[mask], 1.0, rtol=0.5, atol=0)),
            ("g.copyto", lambda: (lambda d: (symnp.copyto(d, sb, where=smask), d)[1])(symnp.array(a)),
             lambda: (lambda d: (np.copyto(d, b, where=mask), d)[1])(a.copy())),
            ("g.sum", lambda: symnp.sum(sa * smask), lambda: np.sum(a * mask)),
            ("g.round_symbolic", lambda: symnp.round(symnp.where(smask, sa, sb) * 3, 1), lambda: np.round(np.where(mask, a, b) * 3, 1)),
            ("g.round0_symbolic", lambda: symnp.round(symnp.where(smask, sa, sb)), lambda: np.round(np.where(mask, a, b))),
            ("g.max.where", lambda: symnp.max(sa, initial=-9, where=smask), lambda: np.max(a, initial=-9, where=mask)),
        ]
        if mask.any():
            tests += [("g.max", lambda: symnp.max(sa[smask]), lambda: np.max(a[mask])),
                      ("g.min", lambda: symnp.min(sa[smask]), lambda: np.min(a[mask]))]
        for name, f, g in tests:
            cases += 1
            try:
                got, want = ev(f(), pairs), g()
                got, want = np.asarray(got), np.asarray(want)
                ok = got.shape == want.shape and bool(np.array_equal(got.astype(float), want.astype(float)))
            except Exception as e:
                ok = False
                name += f" ({type(e).__name__}: {e})"
            if not ok:
                mism += 1
                bad.append(name)
    return cases, mism, sorted(set(bad))[:10]


def cross_check(pkg, rng, rounds=6):
    """Real functions, concrete inputs: under the model vs natively."""
    from .mode import native_pkg
    from rt import gen
    native = native_pkg()
    cases = mism = 0
    bad = []
    for _ in range(rounds):
        n = rng.choice([3, 4])
        for comp in ("superadditive", "superadditive_cached", "sam_apx_1"):
            v = gen.superadditive_game(rng, n, kind="dyadic", monotone=comp.startswith("sam"), negative=not comp.startswith("sam"))
            K = sorted(gen.knowledge(rng, n))
            tables = []
            try:
                _collect(tables, pkg, native, n, comp, v, K)
            except Exception:
                continue        # the code under verification raises on this input: that is the checks' business, not a model mismatch
            for P in ():
                game_m, bounds, co = P.mod("game"), P.mod("bounds"), P.mod("coalitions")
                g = game_m.IncompleteCooperativeGame(n, bounds.BOUNDS[comp])
                g.set_known_values([v[c] for c in K], [co.Coalition(c) for c in K])
                for c in range(1 << n):
                    if c not in K:
                        g.set_lower_bound(float((c * 7) % 5 - 2), co.Coalition(c))
                        g.set_upper_bound(float((c * 3) % 7), co.Coalition(c))
                g.compute_bounds()
                ex = P.mod("exploitability").compute_exploitability(g)
                l1 = P.mod("norms").l1_norm(g)
                full = game_m.IncompleteCooperativeGame(n)
                full.set_values(P.mod("game").np.array(v))
                sh = list(P.mod("shapley").compute_shapley_value(full))
                sa = P.mod("game_properties").is_superadditive(full)
                P.mod("normalize").normalize_game(full)
                tables.append((_to_float(g._values), _to_float(ex), _to_float(l1), [_to_float(x) for x in sh], bool(_to_float(sa)),
                               _to_float(full.get_values())))
            cases += 1
            a, b = tables
            ok = _same(a[0], b[0]) and abs(a[1] - b[1]) < 1e-12 and abs(a[2] - b[2]) < 1e-12 and np.allclose(a[3], b[3], rtol=1e-12, atol=1e-12) \
                and a[4] == b[4] and np.allclose(a[5], b[5], rtol=1e-12, atol=1e-12)
            if not ok:
                mism += 1
                bad.append(f"{comp} n={n}")
    return cases, mism, bad[:5]


def _clear_caches(P):
    """functools caches of the repository are cleared so that both sides start from the same call history."""
    for modname in ("bounds",):
        m = P.mod(modname)
        for obj in vars(m).values():
            if hasattr(obj, "cache_clear"):
                obj.cache_clear()


def _collect(tables, pkg, native, n, comp, v, K):
    for P in (pkg, native):
        _clear_caches(P)
        game_m, bounds, co = P.mod("game"), P.mod("bounds"), P.mod("coalitions")
        g = game_m.IncompleteCooperativeGame(n, bounds.BOUNDS[comp])
        g.set_known_values([v[c] for c in K], [co.Coalition(c) for c in K])
        for c in range(1 << n):
            if c not in K:
                g.set_lower_bound(float((c * 7) % 5 - 2), co.Coalition(c))
                g.set_upper_bound(float((c * 3) % 7), co.Coalition(c))
        g.compute_bounds()
        ex = P.mod("exploitability").compute_exploitability(g)
        l1 = P.mod("norms").l1_norm(g)
        full = game_m.IncompleteCooperativeGame(n)
        full.set_values(P.mod("game").np.array(v))
        sh = list(P.mod("shapley").compute_shapley_value(full))
        sa = P.mod("game_properties").is_superadditive(full)
        P.mod("normalize").normalize_game(full)
        tables.append((_to_float(g._values), _to_float(ex), _to_float(l1), [_to_float(x) for x in sh], bool(_to_float(sa)),
                       _to_float(full.get_values())))


def run(pkg, seed=0):
    rng = random.Random(seed)
    c1, m1, b1 = numpy_model(rng)
    c2, m2, b2 = cross_check(pkg, rng)
    c3, m3, b3 = guarded_model(random.Random(seed + 7))
    c1, m1, b1 = c1 + c3, m1 + m3, b1 + b3
    return {"numpy_model_cases": c1, "numpy_model_mismatches": m1, "numpy_model_bad": b1, "guarded_model_cases": c3,
            "cross_check_cases": c2, "cross_check_mismatches": m2, "cross_check_bad": b2}
