"""The check runner: collects obligations from scenarios, discharges them, replays
counterexamples on the real package, runs bounded stand-ins, writes evidence, sets the exit code."""
from __future__ import annotations

import hashlib
import json
import os
import random
import re
import sys
import time
import traceback

from . import core, loader, solve
from .core import CTX
from .mode import NativeMode, PreconditionNotMet, SymMode

VERIF = os.path.dirname(os.path.dirname(os.path.abspath(__file__)))

TRUSTED_BASE = [
    "A1 float64/float32 arithmetic is treated as exact real arithmetic in every SMT obligation",
    "A2 pyvc.symnp numpy model (indexing/views/broadcasting are real numpy; reductions, comparisons, copyto, place, "
    "isclose, norm, bincount, where are re-implemented; conformance-tested against real numpy each run)",
    "A3 CPython executes the repository source; mechanical rewrites R-not/R-comp/R-boolop/R-assert/R-loopcut are "
    "semantics-preserving on concrete values",
    "A4 z3 4.x/5.1.0 (cvc5 as second back end) are sound",
    "A5 spec functions in /verif/spec are the intended mathematics",
]


def scenario_registry():
    from props import scenarios
    return scenarios.REGISTRY


class Finding:
    def __init__(self, line):
        self.line = line
        kv = dict(re.findall(r"(\w+)=((?:\"[^\"]*\")|\S+)", line.split(":", 1)[1]))
        self.property = kv.get("property")
        self.key = kv.get("key", "")
        self.obligation = kv.get("obligation", ".*").strip('"')
        self.where = kv.get("where", "").strip('"')
        m = re.search(r"what=(.*)$", line)
        self.what = m.group(1).strip() if m else self.key

    def matches(self, pid, obligation_name, inputs):
        if pid != self.property:
            return False
        if not re.search(self.obligation, obligation_name):
            return False
        if self.where.startswith("pred:"):
            from props.finding_preds import PREDS
            try:
                return bool(PREDS[self.where[5:]](inputs))
            except Exception:
                return False
        if self.where:
            try:
                return bool(eval(self.where, {"__builtins__": {"abs": abs, "len": len, "min": min, "max": max,
                                                               "sum": sum, "float": float, "any": any, "all": all}},
                                 {"inp": inputs}))
            except Exception:
                return False
        return True


def load_findings():
    path = os.path.join(VERIF, "known_findings.txt")
    out = []
    if os.path.exists(path):
        for line in open(path):
            line = line.strip()
            if line.startswith("finding:"):
                out.append(Finding(line))
    return out


class Run:
    def __init__(self, pid, tier="quick", seed=0, level="proof"):
        self.pid = pid
        self.tier = tier
        self.seed = seed
        self.level_claimed = level
        self.t0 = time.time()
        self.tasks = []
        self.results = []
        self.scen_rows = []            # per scenario instance: paths, obligations, exec seconds
        self.functions = {}            # qualified name -> sha
        self.engine_failures = []      # (label, reason)
        self.bounded = []              # rows of bounded checks
        self.exhaustive = []
        self.lemma_names = set()
        self.violations = []           # (obligation, replay path, reproduced?)
        self.known_hits = []
        self.errors = []               # checker errors (exit 3)
        self.notes = []
        self.trusted = list(TRUSTED_BASE)
        self.assumptions = []
        self.samples = []
        self.findings = load_findings()
        self.rng = random.Random(seed)
        self.pkg = None
        self.timeout_s = 60 if tier == "quick" else 300
        self.auto_fallback_samples = 12 if tier == "quick" else 60
        self.auto_fallback_tol = 1e-9
        self.check_budget_s = 300 if tier == "quick" else 2400
        self.explore_budget_s = 90 if tier == "quick" else 600     # per scenario instance; exceeding it is UNDECIDED, never a verdict
        self.replay_dir = os.path.join(VERIF, "replays", pid)
        self.native_evals = 0
        self.native_distinct = set()
        self.fallbacks = {}            # label -> callable running the bounded stand-in
        self.rewrite_hits = {}
        self.stubs_used = set()
        self.inlined = set()

    # -- package ---------------------------------------------------------------------------
    def package(self, **kw):
        if self.pkg is None or kw:
            p = loader.Package(**kw)
            if not kw:
                self.pkg = p
            return p
        return self.pkg

    def under_contract(self, pkg, modname, qualnames):
        m = pkg.mod(modname)
        for q in qualnames:
            sha = loader.function_sha(m, q)
            if sha is None:
                self.errors.append(f"function {modname}.{q} not found in the current tree")
            self.functions[f"{modname}.{q}"] = sha

    # -- deductive --------------------------------------------------------------------------
    def prove(self, label, scenario, params=None, pkg=None, lemma=False, canary=None, max_paths=None,
              fallback=None):
        """Symbolically execute scenario(M, **params) and queue one task per obligation.

        canary: set of check names that are deliberately too strong (must be refutable and replay)."""
        params = params or {}
        pkg = pkg or self.package()
        canary = canary or set()
        sname = scenario.__name__
        t0 = time.time()
        holder = {}
        fallback = fallback or self._auto_fallback(label, scenario, params)
        if time.time() - self.t0 > self.check_budget_s:
            self.engine_failures.append((label, f"Undecided: the check's overall symbolic-execution budget ({self.check_budget_s}s) is used up"))
            if fallback:
                self.fallbacks[label] = fallback
            return None

        def fn():
            M = SymMode(pkg)
            holder["M"] = M
            CTX.notes["M"] = M
            return scenario(M, **params)

        try:
            paths = core.explore(fn, max_paths=max_paths, budget_s=self.explore_budget_s)
        except (core.Unsupported, core.Undecided) as e:
            self.engine_failures.append((label, f"{type(e).__name__}: {e}"))
            if fallback:
                self.fallbacks[label] = fallback
            return None
        except Exception as e:
            self.engine_failures.append((label, "engine crash: " + "".join(traceback.format_exception_only(e)).strip()
                                         + " @ " + traceback.format_tb(e.__traceback__)[-1].strip().replace("\n", " ")))
            if fallback:
                self.fallbacks[label] = fallback
            return None
        n_obl = 0
        for pi, pr in enumerate(paths):
            suffix = f"#p{pi}" if len(paths) > 1 else ""
            ts = self._path_tasks(pr, label, sname, params, lemma, canary, suffix)
            self.tasks.extend(ts)
            n_obl += len(ts)
        self.scen_rows.append({"label": label, "scenario": sname, "params": _jsonable(params), "paths": len(paths),
                               "obligations": n_obl, "exec_s": round(time.time() - t0, 3), "lemma": lemma})
        if lemma:
            self.lemma_names.add(label)
        if fallback:
            self.fallbacks[label] = fallback
        return paths

    def _path_tasks(self, pr, label, sname, params, lemma, canary, suffix):
        import z3
        out = []
        M = pr.notes.get("M")
        inputs = dict(M.inputs) if M is not None else {}
        meta0 = {"scenario": sname, "params": params, "label": label, "lemma": lemma}
        for ob in pr.obligations:
            nm = f"{label}/{ob.name}{suffix}"
            is_can = ob.name in canary or ob.meta.get("canary")
            meta = dict(meta0, check=ob.name, **{k: v for k, v in ob.meta.items() if _plain(v)})
            out.append(solve.Task(nm, ob.hyps, ob.clause, inputs, meta, want_sat=bool(is_can)))
        if pr.kind == "raise":
            e = pr.value
            tb = traceback.format_tb(e.__traceback__)
            loc = tb[-1].strip().split("\n")[0] if tb else ""
            meta = dict(meta0, check="raises-nothing", exception=f"{type(e).__name__}: {e}", where=loc)
            out.append(solve.Task(f"{label}/raises-nothing{suffix}", pr.pc, z3.BoolVal(False), inputs, meta))
        return out

    def prove_parallel(self, label, scenario, params=None, pkg=None, lemma=False, canary=None, max_paths=100000, fallback=None,
                       procs=16):
        """Like prove(), but the path tree is explored by a pool of fork()ed workers: a serial breadth-first phase
        collects decision prefixes, then each worker explores the subtree below one prefix and discharges its
        obligations itself (z3 terms cannot cross process boundaries; plain Result records can)."""
        import multiprocessing as mp
        params = params or {}
        pkg = pkg or self.package()
        canary = canary or set()
        sname = scenario.__name__
        t0 = time.time()
        fallback = fallback or self._auto_fallback(label, scenario, params)

        def fn():
            M = SymMode(pkg)
            CTX.notes["M"] = M
            return scenario(M, **params)

        frontier = [[]]
        n_obl = n_paths = 0
        timeout_s = self.timeout_s
        me = self

        def work(dec):
            try:
                pr, pending = core.explore_one(fn, dec)
            except (core.Unsupported, core.Undecided) as e:
                return ("engine", f"{type(e).__name__}: {e}", [], 0)
            if pr is None:
                return ("ok", [], pending, 0)
            ts = me._path_tasks(pr, label, sname, params, lemma, canary, "#p" + "".join(str(int(d)) for d in pr.decisions))
            return ("ok", solve.discharge(ts, timeout_s=timeout_s, procs=1), pending, 1)

        global _WORK
        _WORK = work
        ctx = mp.get_context("fork")
        total = 0
        par_budget = max(270, self.explore_budget_s)    # here the workers also discharge their obligations
        t_end = time.time() + par_budget
        while frontier:
            if time.time() > t_end:
                self.engine_failures.append((label, f"Undecided: exploration time budget exceeded ({par_budget}s)"))
                break
            # level-synchronous breadth-first exploration: every path of the current frontier in parallel
            if len(frontier) < 3:
                outs = [work(d) for d in frontier]
            else:
                with ctx.Pool(min(procs, len(frontier))) as pool:
                    outs = pool.map(_call_work, frontier, chunksize=1)
            frontier = []
            for kind, payload, pending, np_ in outs:
                if kind == "engine":
                    self.engine_failures.append((label, payload))
                    continue
                self.results.extend(payload)
                n_obl += len(payload)
                n_paths += np_
                frontier.extend(pending)
            total += len(outs)
            if total > max_paths:
                self.engine_failures.append((label, f"Undecided: path budget exceeded ({max_paths})"))
                break
        if any(lab == label for lab, _ in self.engine_failures) and fallback:
            self.fallbacks[label] = fallback
        self.scen_rows.append({"label": label, "scenario": sname, "params": _jsonable(params), "paths": n_paths,
                               "obligations": n_obl, "exec_s": round(time.time() - t0, 3), "lemma": lemma, "parallel": True})
        if fallback:
            self.fallbacks[label] = fallback
        return n_paths

    def discharge(self):
        t0 = time.time()
        res = solve.discharge(self.tasks, timeout_s=self.timeout_s)
        self.results.extend(res)
        self.tasks = []
        self.solver_wall = getattr(self, "solver_wall", 0.0) + time.time() - t0
        return res

    # -- native -----------------------------------------------------------------------------
    def native(self, scenario, params, inputs, tol=1e-9):
        """Run a scenario natively on given inputs; returns (failures, exception|None, precondition_ok)."""
        M = NativeMode(inputs, tol=tol)
        try:
            scenario(M, **params)
        except PreconditionNotMet:
            return [], None, False, M
        except Exception as e:
            return list(M.failures), e, True, M
        return list(M.failures), None, True, M

    def _auto_fallback(self, label, scenario, params):
        """The generic bounded stand-in used when a scenario instance has none of its own: the same scenario text run
        natively (real package, float64) on inputs invented per sample (rt.gen.AutoGiven).  It only ever runs for an
        instance the engine left undecided (budget, unsupported construct), or for all when ICG_FORCE_FALLBACKS=1."""
        count = self.auto_fallback_samples
        if not count:
            return None

        def fb():
            from rt import gen
            lab = f"fallback.auto.{label}"
            ok = self.bounded_run(lab, scenario, params, gen.auto_inputs(self.rng, params, count), tol=self.auto_fallback_tol,
                                  bound=f"{count} samples with inputs invented on demand (random superadditive / SAM games, knowledge "
                                        "masks, small integers); samples failing the scenario's precondition are skipped")
            if ok and self.bounded[-1]["evaluations"] == 0:
                return None        # nothing met the precondition: the stand-in did not run
            return ok
        return fb

    def bounded_run(self, label, scenario, params, inputs_iter, tol=1e-9, bound="", distinct_key=None):
        """Bounded stand-in: run the scenario natively over generated inputs."""
        t0 = time.time()
        n = fails = skipped = 0
        for inputs in inputs_iter:
            fl, exc, ok, M = self.native(scenario, params, inputs, tol)
            if not ok:
                skipped += 1
                continue
            n += 1
            self.native_evals += 1
            key = distinct_key(inputs) if distinct_key else hashlib.md5(
                json.dumps(_jsonable(inputs), sort_keys=True).encode()).hexdigest()
            self.native_distinct.add((label, key))
            if fl or exc is not None:
                fails += 1
                names = [f[0] for f in fl] + ([f"raises-nothing ({type(exc).__name__}: {exc})"] if exc else [])
                self._report_violation(f"{label}/{names[0]}", scenario, params, M.inputs or inputs, reproduced=True,
                                       detail={"failed_checks": names, "layer": "bounded", "tolerance": tol})
                if fails >= 3:
                    break
        self.bounded.append({"label": label, "scenario": scenario.__name__, "params": _jsonable(params),
                             "evaluations": n, "skipped_precondition": skipped, "failures": fails,
                             "bound": bound, "tolerance": tol, "wall_s": round(time.time() - t0, 2)})
        return fails == 0

    # -- verdicts ---------------------------------------------------------------------------
    def _write_replay(self, name, payload):
        os.makedirs(self.replay_dir, exist_ok=True)
        fn = re.sub(r"[^A-Za-z0-9_.=,\[\]-]+", "_", name)[:150] + ".json"
        path = os.path.join(self.replay_dir, fn)
        with open(path, "w") as f:
            json.dump(payload, f, indent=1, default=str)
        return path

    def _report_violation(self, obligation, scenario, params, inputs, reproduced, detail=None, solver=None):
        for f in self.findings:
            if f.matches(self.pid, obligation, inputs):
                if not any(k == f.key for k, _ in self.known_hits):
                    print(f"KNOWN-FINDING: property={self.pid} {f.key}: {f.what} [first witness: {obligation}]")
                    sys.stdout.flush()
                if (f.key, obligation) not in self.known_hits:
                    self.known_hits.append((f.key, obligation))
                if solver is not None:
                    self.known_refuted = getattr(self, "known_refuted", 0) + 1
                return
        lab = obligation.split("/")[0]
        self._per_label = getattr(self, "_per_label", {})
        self._per_label[lab] = self._per_label.get(lab, 0) + 1
        if self._per_label[lab] > 3:
            self.suppressed = getattr(self, "suppressed", 0) + 1
            self.violations.append((obligation, None, reproduced))
            return
        payload = {"property": self.pid, "obligation": obligation, "scenario": scenario.__name__,
                   "params": _jsonable(params), "inputs": _jsonable(inputs), "reproduced_natively": reproduced,
                   "detail": detail or {}, "solver": solver or {}, "repo_root": os.environ.get("REPO_ROOT", "/repo")}
        path = self._write_replay(obligation, payload)
        self.violations.append((obligation, path, reproduced))
        tail = "" if reproduced else " no-failing-input-found"
        print(f"VIOLATION property={self.pid} replay={path}{tail}")
        sys.stdout.flush()

    def judge(self):
        """Turn solver results into verdicts (replaying counterexamples natively)."""
        reg = scenario_registry()
        self.undecided = []
        self.discharged = 0
        self.canaries = []
        for r in self.results:
            scen = reg.get(r.meta.get("scenario"))
            if r.want_sat:
                ok = False
                why = r.status
                if r.status == "sat" and scen is not None:
                    fl, exc, pre_ok, M = self.native(scen, r.meta["params"], r.model)
                    ok = pre_ok and (any(f[0] == r.meta["check"] for f in fl))
                    why = "sat, replayed natively" if ok else f"sat but replay did not fail (pre_ok={pre_ok}, failures={fl}, exc={exc})"
                self.canaries.append({"name": r.name, "ok": ok, "status": why, "seconds": round(r.seconds, 3)})
                if not ok:
                    self.errors.append(f"canary {r.name} did not behave: {why}")
                continue
            if r.status == "unsat":
                self.discharged += 1
                continue
            if r.status == "unknown":
                self.undecided.append(r)
                continue
            # sat: a candidate counterexample
            check = r.meta.get("check")
            if scen is None:
                self._report_violation(r.name, _Named(r.meta.get("scenario")), r.meta.get("params"), r.model, False,
                                       detail={"kind": "ghost lemma refuted: the spec-level argument is wrong or a spec function changed"},
                                       solver={"backend": r.backend, "seconds": r.seconds})
                continue
            fl, exc, pre_ok, M = self.native(scen, r.meta["params"], r.model)
            names = [f[0] for f in fl]
            if check == "raises-nothing":
                reproduced = exc is not None
                if not reproduced:
                    # the exception exists only under the model: engine limitation, not a verdict
                    self.engine_failures.append((r.meta["label"], f"path raised {r.meta.get('exception')} at {r.meta.get('where')} "
                                                 "under the model but the native replay does not raise"))
                    continue
            else:
                reproduced = pre_ok and (check in names or (exc is not None))
            self._report_violation(r.name, scen, r.meta["params"], r.model, reproduced,
                                   detail={"failed_natively": names, "native_exception": repr(exc) if exc else None,
                                           "precondition_met_natively": pre_ok, "check": check,
                                           "symbolic_exception": r.meta.get("exception"), "where": r.meta.get("where")},
                                   solver={"backend": r.backend, "seconds": round(r.seconds, 3), "model_kind": r.detail})

    def run_fallbacks(self):
        """Bounded stand-ins for scenario instances the engine could not decide."""
        need = {lab for lab, _ in self.engine_failures} | {r.meta.get("label") for r in getattr(self, "undecided", [])}
        really = set(need)
        if os.environ.get("ICG_FORCE_FALLBACKS") == "1":       # self-test of the stand-ins on a tree where the proofs go through
            need |= set(self.fallbacks)
        self.fallback_rows = []
        for lab in sorted(x for x in need if x):
            fb = self.fallbacks.get(lab)
            if fb is None:
                self.fallback_rows.append({"label": lab, "ran": False})
                continue
            ok = fb()
            if ok is None:
                self.fallback_rows.append({"label": lab, "ran": False, "reason": "no generated input met the scenario's precondition",
                                           "needed": lab in really})
                continue
            self.fallback_rows.append({"label": lab, "ran": True, "held": bool(ok)})

    # -- finish -----------------------------------------------------------------------------
    def finish(self, rule="", explanation="", extra=None):
        if self.tasks:
            self.discharge()
        try:
            from . import conformance
            self.conformance = conformance.run(loader.Package(), self.seed)
            if self.conformance["numpy_model_mismatches"] or self.conformance["cross_check_mismatches"]:
                self.errors.append(f"conformance pass failed: {self.conformance}")
        except Exception as e:
            self.conformance = {"error": f"{type(e).__name__}: {e}"}
            self.errors.append(f"conformance pass crashed: {type(e).__name__}: {e}")
        self.judge()
        self.run_fallbacks()
        known_refuted = getattr(self, "known_refuted", 0)
        obligations = sum(1 for r in self.results if not r.want_sat) - known_refuted
        und = len(self.undecided)
        unreplaced = [row for row in self.fallback_rows if not row.get("ran") and row.get("needed", True)]
        exit_code = 0
        if self.violations:
            exit_code = 1
        elif self.errors:
            exit_code = 3
        elif unreplaced:
            exit_code = 2
        if core.PRUNED[0] and not getattr(self, "allow_pruned", False):
            self.errors.append(f"{core.PRUNED[0]} paths were cut by the re-draw bound in a check that does not expect it")
            exit_code = exit_code or 3
        if obligations == 0 and not self.bounded and not self.exhaustive:
            self.errors.append("no obligations were generated")
            exit_code = exit_code or 3
        level = self.level_claimed
        fully = (self.discharged == obligations and not self.engine_failures and obligations > 0)
        if level == "proof" and not fully:
            level = "other"
        by_backend = {}
        for r in self.results:
            if r.status == "unsat":
                by_backend[r.backend] = by_backend.get(r.backend, 0) + 1
        slow = sorted(self.results, key=lambda r: -r.seconds)[:5]
        samples = []
        for r in self.results[:: max(1, len(self.results) // 6)][:6]:
            samples.append({"obligation": r.name, "check": r.meta.get("check"), "verdict": r.status,
                            "backend": r.backend, "seconds": round(r.seconds, 3)})
        samples.extend(self.samples[:6])
        if not samples:
            samples = [{"note": "no deductive obligations in this run"}]
        cov = {
            "obligations": obligations,
            "discharged": self.discharged,
            "undecided": und,
            "checker_cmd": f"bin/check {self.pid} --tier {self.tier}",
            "trusted_base": self.trusted,
            "explanation": explanation,
            "functions_under_contract": self.functions,
            "scenarios": self.scen_rows,
            "lemma_instances": sorted(self.lemma_names),
            "discharged_by_backend": by_backend,
            "solver_seconds_total": round(sum(r.seconds for r in self.results), 2),
            "solver_wall_s": round(getattr(self, "solver_wall", 0.0), 2),
            "slowest": [{"obligation": r.name, "seconds": round(r.seconds, 2), "status": r.status} for r in slow],
            "canaries": self.canaries,
            "engine_failures": [{"label": a, "reason": b} for a, b in self.engine_failures],
            "fallbacks": self.fallback_rows,
            "bounded_checks": self.bounded,
            "exhaustive_checks": self.exhaustive,
            "evaluations": self.native_evals + obligations,
            "distinct_nontrivial": len(self.native_distinct) + len({r.name for r in self.results}),
            "rule": rule or "one evaluation per discharged obligation instance (distinct by obligation name) plus one per "
                            "native run of a bounded/exhaustive check (distinct by input hash)",
            "samples": samples,
            "known_findings": [{"key": k, "obligation": o} for k, o in self.known_hits][:40],
            "known_finding_witnesses": len(self.known_hits),
            "obligations_refuted_by_listed_findings": known_refuted,
            "rewrite_hits": {k: v for k, v in (self.pkg.hits.items() if self.pkg else [])},
            "callee_stubs": sorted(self.stubs_used),
            "callees_inlined": sorted(self.inlined),
            "paths_pruned_by_redraw_bound": core.PRUNED[0],
            "conformance": getattr(self, "conformance", None),
            "checker_errors": self.errors,
            "notes": self.notes,
        }
        if extra:
            cov.update(extra)
        ev = {"property_id": self.pid, "tier": self.tier, "seed": self.seed, "level": level, "coverage": cov,
              "assumptions": self.assumptions + self.trusted, "wall_s": round(time.time() - self.t0, 2),
              "violations": len(self.violations)}
        # runs against a scratch copy of the repository (self-tests) must not overwrite the evidence of /repo
        evdir = "evidence" if os.path.abspath(os.environ.get("REPO_ROOT", "/repo")) == "/repo" else "evidence_scratch"
        os.makedirs(os.path.join(VERIF, evdir), exist_ok=True)
        with open(os.path.join(VERIF, evdir, f"{self.pid}.json"), "w") as f:
            json.dump(ev, f, indent=1, default=str)
        tag = {0: "HELD", 1: "VIOLATED", 2: "UNDECIDED", 3: "CHECKER-ERROR"}[exit_code]
        print(f"{self.pid} {tag}: obligations={obligations} discharged={self.discharged} undecided={und} "
              f"violations={len(self.violations)} known={len(self.known_hits)} bounded_evals={self.native_evals} "
              f"engine_failures={len(self.engine_failures)} wall={ev['wall_s']}s level={level}")
        for e in self.errors:
            print("  checker error:", e)
        for lab, why in self.engine_failures:
            print("  engine:", lab, "-", why)
        return exit_code


_WORK = None


def _call_work(dec):
    return _WORK(dec)


class _Named:
    def __init__(self, name):
        self.__name__ = name or "?"


def _plain(v):
    return isinstance(v, (str, int, float, bool, type(None), list, tuple, dict))


def _jsonable(x):
    if isinstance(x, dict):
        return {str(k): _jsonable(v) for k, v in x.items()}
    if isinstance(x, (list, tuple, set)):
        return [_jsonable(v) for v in x]
    if isinstance(x, (str, int, float, bool, type(None))):
        return x
    if hasattr(x, "__name__"):
        return x.__name__
    return str(x)
