"""Model of numpy.random (assumption A6): every draw is a fresh symbol constrained only by the
support of its distribution; integer-valued draws that the code uses as structure (indices,
counts, permutations) are enumerated by forking.  Every draw is recorded with the generator
object it came from (the determinism frame of C10)."""
from __future__ import annotations

import itertools
from fractions import Fraction

import numpy as _np
import z3

from .core import CTX, SB, SV, Unsupported

_seq = [0]
REDRAW_LIMIT = 3      # a rejection-sampling loop is explored up to this many draws from one call site


def _shape(size):
    if size is None:
        return None
    if isinstance(size, (int, _np.integer)):
        return (int(size),)
    return tuple(int(s) for s in size)


def choose(k, label):
    """Nondeterministic choice of an integer in range(k) by forking; recorded as input `label`."""
    if k <= 0:
        raise ValueError("empty choice")
    cnt = CTX.notes.setdefault("choose_count", {})
    cnt[label] = cnt.get(label, 0) + 1
    if cnt[label] > CTX.notes.get("redraw_limit", REDRAW_LIMIT):
        from .core import PathPruned
        raise PathPruned(label)
    idx = CTX.choose(k)
    M = CTX.notes.get("M")
    seq = len(CTX.notes.setdefault("draws", []))
    name = f"draw{seq:03d}"
    if M is not None:
        c = z3.Int(name)
        M.inputs[name] = c
        CTX.assume(c == idx)
    CTX.notes["draws"].append((name, idx))
    return idx


class SymGenerator:
    """Stands for numpy.random.Generator."""

    def __init__(self, tag="rng"):
        _seq[0] += 1
        self.tag = f"{tag}{_seq[0]}"
        self.count = 0

    def _log(self, kind):
        CTX.notes.setdefault("rng_log", []).append((self.tag, kind))

    def _fresh(self, kind, lo=None, hi=None, hi_strict=True, lo_strict=True):
        M = CTX.notes.get("M")
        self.count += 1
        name = f"draw{len(CTX.notes.setdefault('draws', [])):03d}"
        CTX.notes["draws"].append((name, None))
        c = z3.Real(name)
        if M is not None:
            M.inputs[name] = c
        # continuous distributions: the probability-zero end points of the support are excluded (A6)
        if lo is not None:
            CTX.assume(c > lo if lo_strict else c >= lo)
        if hi is not None:
            CTX.assume(c < hi if hi_strict else c <= hi)
        return SV(t=c)

    def _arr(self, size, kind, lo=None, hi=None, hi_strict=True, lo_strict=True):
        from . import symnp
        sh = _shape(size)
        if sh is None:
            return self._fresh(kind, lo, hi, hi_strict, lo_strict)
        a = _np.empty(sh, dtype=object)
        for idx in _np.ndindex(*sh):
            a[idx] = self._fresh(kind, lo, hi, hi_strict, lo_strict)
        return a.view(symnp.VArr)

    # -- continuous --------------------------------------------------------------------------
    def random(self, size=None, **kw):
        self._log("random")
        return self._arr(size, "random", 0, 1)

    def uniform(self, low=0.0, high=1.0, size=None):
        self._log("uniform")
        return self._arr(size, "uniform", Fraction(low), Fraction(high))

    def triangular(self, left, mode, right, size=None):
        self._log("triangular")
        return self._arr(size, "triangular", Fraction(left), Fraction(right), hi_strict=True)

    def beta(self, a, b, size=None):
        self._log("beta")
        return self._arr(size, "beta", 0, 1, hi_strict=True)

    def poisson(self, lam=1.0, size=None):
        self._log("poisson")
        return self._arr(size, "poisson", 0, None, lo_strict=False)

    # -- discrete (enumerated) ---------------------------------------------------------------
    def integers(self, low, high=None, size=None, **kw):
        self._log("integers")
        if high is None:
            low, high = 0, low
        low, high = int(low), int(high)
        if size is not None:
            raise Unsupported("integers(size=...)")
        return _np.int64(low + choose(high - low, f"{self.tag}.integers"))

    def permutation(self, x):
        self._log("permutation")
        n = int(x) if isinstance(x, (int, _np.integer)) else len(x)
        perms = list(itertools.permutations(range(n)))
        p = perms[choose(len(perms), f"{self.tag}.permutation")]
        from . import symnp
        return _np.array(p).view(symnp.VArr)

    def choice(self, a, size=None, **kw):
        self._log("choice")
        n = int(a) if isinstance(a, (int, _np.integer)) else len(a)
        if size is None:
            i = choose(n, f"{self.tag}.choice")
            return i if isinstance(a, (int, _np.integer)) else a[i]
        raise Unsupported("choice(size=...)")


class _ModuleRandom:
    """numpy.random as a module: default_rng, Generator, and the legacy global functions."""

    Generator = SymGenerator

    def __init__(self):
        self._global = None

    def default_rng(self, seed=None):
        g = SymGenerator("rng")
        g.seed = seed
        g.created_in_call = CTX.notes.get("in_generator_call", False)
        return g

    def choice(self, a, size=None, **kw):
        from . import symnp
        if isinstance(a, symnp.GA):
            # some element of a symbolically guarded candidate array: enumerate the candidates;
            # choosing candidate i is only possible when its guard holds
            live = [(g, v) for g, v in zip(a.guards, a.vals) if g.c is not False]
            if not live:
                raise ValueError("'a' cannot be empty unless no samples are taken")
            CTX.oblige("choice.nonempty", a.nonempty(), kind="np.random.choice")
            i = choose(len(live), "np.random.choice")
            g, v = live[i]
            CTX.assume(g)
            return v
        arr = _np.asarray(a)
        if arr.ndim == 0:
            return choose(int(arr), "np.random.choice")
        if len(arr) == 0:
            raise ValueError("'a' cannot be empty unless no samples are taken")
        return arr[choose(len(arr), "np.random.choice")]

    def seed(self, *a):
        return None


MODULE_RANDOM = _ModuleRandom()
