"""Load the repository's modules from $REPO_ROOT under the numpy model.

A private package (default name `vc_ic`) is built whose modules are compiled from the
files currently in $REPO_ROOT/incomplete_cooperative after the mechanical rewrites of
pyvc.guarded.Rewrite (and loop cuts requested by the caller); `numpy` resolves to
pyvc.symnp, a few third-party modules to stubs.
"""
from __future__ import annotations

import ast
import builtins
import hashlib
import os
import sys
import types

from . import guarded, symnp
from .core import Unsupported

REPO_ROOT = os.environ.get("REPO_ROOT", "/repo")


def repo_src():
    return os.path.join(os.environ.get("REPO_ROOT", REPO_ROOT), "incomplete_cooperative")


class _InertMeta(type):
    """Inert stand-in classes for heavy third-party names: any attribute is again an inert class."""

    def __getattr__(cls, name):
        if name.startswith("__"):
            raise AttributeError(name)
        return _inert_class(name)

    def __or__(cls, other):
        return cls

    def __ror__(cls, other):
        return cls


def _inert_class(name):
    def _getattr(self, n):
        if n.startswith("__"):
            raise AttributeError(n)
        return _inert_class(n)
    return _InertMeta(name, (), {"__init__": lambda self, *a, **k: None, "__getattr__": _getattr,
                                 "__call__": lambda self, *a, **k: None,
                                 # `fig, ax = plt.subplots()`: an inert result unpacks into two inert objects
                                 "__iter__": lambda self: iter((_inert_class("item0")(), _inert_class("item1")())),
                                 "__class_getitem__": classmethod(lambda c, i: c)})


class _Inert(types.ModuleType):
    """Inert stand-in for a heavy third-party module."""

    def __getattr__(self, name):
        if name.startswith("__"):
            raise AttributeError(name)
        cls = _inert_class(name)
        setattr(self, name, cls)
        return cls


INERT = ("networkx", "matplotlib", "sb3_contrib", "stable_baselines3", "torch")


def _math_stub():
    """`math` with the float-only entry points made exact for model scalars (A1): fsum is the exact sum, sqrt/fabs go
    through the model; everything else is the real module (factorial, comb, gcd, ... on concrete integers)."""
    import math as _math
    from fractions import Fraction
    from .core import SB, SV
    m = types.ModuleType("math")
    for k in dir(_math):
        if not k.startswith("__"):
            setattr(m, k, getattr(_math, k))

    def _sym(x):
        return isinstance(x, SV)

    def fsum(it):
        tot = SV(c=Fraction(0))
        for x in it:
            tot = tot + SV.lift(x)
        return tot

    def sqrt(x):
        return symnp.sqrt(x) if _sym(x) else _math.sqrt(x)

    def fabs(x):
        return abs(x) if _sym(x) else _math.fabs(x)

    def isnan(x):
        return False if _sym(x) else _math.isnan(x)

    def isinf(x):
        return False if _sym(x) else _math.isinf(x)

    def isfinite(x):
        return True if _sym(x) else _math.isfinite(x)

    def _intarg(f):
        def g(*a):
            return f(*[int(x) if _sym(x) else x for x in a])
        return g
    m.fsum, m.sqrt, m.fabs, m.isnan, m.isinf, m.isfinite = fsum, sqrt, fabs, isnan, isinf, isfinite
    m.factorial, m.comb, m.gcd = _intarg(_math.factorial), _intarg(_math.comb), _intarg(_math.gcd)
    return m


def _gym_stub():
    m = types.ModuleType("gymnasium")

    class Env:
        def reset(self, seed=None, options=None):
            return None

        def get_wrapper_attr(self, name):
            return getattr(self, name)

    class _Space:
        def __init__(self, *a, **k):
            self.a = a
            self.k = k

    class Box(_Space):
        pass

    class Discrete(_Space):
        pass

    m.Env = Env
    m.spaces = types.SimpleNamespace(Box=Box, Discrete=Discrete)
    return m


class Package:
    """One loaded instance of the repository package under the model."""

    _counter = [0]

    def __init__(self, root=None, loopcuts=None, stubs=None, inject=None, name=None, rewrite=True, vc_runtime=None):
        self.root = root or repo_src()
        Package._counter[0] += 1
        self.name = name or f"vc_ic{Package._counter[0]}"
        self.loopcuts = loopcuts or {}       # module name -> list of (funcname, ordinal, lid)
        self.stubs = dict(stubs or {})       # top-level module name -> module object
        self.inject = inject or {}           # module name -> dict of extra globals
        self.rewrite = rewrite
        self.hits = {}
        self.sha = {}
        self.vc_runtime = vc_runtime
        self.pkg = types.ModuleType(self.name)
        self.pkg.__path__ = [self.root]
        sys.modules[self.name] = self.pkg
        self.stubs.setdefault("gymnasium", _gym_stub())
        self.stubs.setdefault("math", _math_stub())
        for nm in INERT:
            self.stubs.setdefault(nm, _Inert(nm))

    def _path(self, name):
        p = os.path.join(self.root, *name.split("."))
        if os.path.isdir(p):
            return os.path.join(p, "__init__.py"), True
        return p + ".py", False

    def mod(self, name):
        full = f"{self.name}.{name}"
        if full in sys.modules:
            return sys.modules[full]
        if "." in name:
            self.mod(name.rsplit(".", 1)[0])
        path, is_pkg = self._path(name)
        src = open(path).read()
        self.sha[name] = hashlib.sha256(src.encode()).hexdigest()
        m = types.ModuleType(full)
        m.__file__ = path
        m.__package__ = full if is_pkg else full.rsplit(".", 1)[0]
        if is_pkg:
            m.__path__ = [os.path.dirname(path)]
        sys.modules[full] = m
        tree = ast.parse(src, path)
        short = os.path.relpath(path, self.root)
        if self.rewrite:
            rw = guarded.Rewrite(short)
            tree = rw.visit(tree)
            self.hits[name] = rw.hits
            ast.fix_missing_locations(tree)
        for (fname, ordinal, lid) in self.loopcuts.get(name, []):
            from . import loopcut
            tree = loopcut.cut_tree(tree, fname, ordinal, lid)
            self.hits.setdefault(name, {}).setdefault("loopcut", 0)
            self.hits[name]["loopcut"] += 1
        ast.fix_missing_locations(tree)
        code = compile(tree, path, "exec")
        b = dict(vars(builtins))
        b["__import__"] = self._make_import()
        b.update(guarded.INJECTED)
        m.__dict__["__builtins__"] = b
        m.__dict__["vc_"] = guarded
        m.__dict__["vcl_"] = self.vc_runtime
        for k, v in self.inject.get(name, {}).items():
            m.__dict__[k] = v
        try:
            exec(code, m.__dict__)
        except BaseException:
            del sys.modules[full]
            raise
        parent = self.pkg if "." not in name else sys.modules[f"{self.name}.{name.rsplit('.', 1)[0]}"]
        setattr(parent, name.rsplit(".", 1)[-1], m)
        return m

    def _make_import(self):
        me = self

        def my_import(nm, globals=None, locals=None, fromlist=(), level=0):
            top = nm.split(".")[0] if nm else ""
            if level == 0:
                if nm == "numpy":
                    return symnp
                if top == "numpy":
                    return builtins.__import__(nm, globals, locals, fromlist, level)
                if top in me.stubs:
                    root = me.stubs[top]
                    if not fromlist:
                        return root
                    cur = root
                    for part in nm.split(".")[1:]:
                        cur = getattr(cur, part)
                    return cur
                if top == "incomplete_cooperative":
                    rest = nm.split(".", 1)[1] if "." in nm else None
                    if rest is None:
                        if fromlist:
                            for f in fromlist:
                                try:
                                    me.mod(f)
                                except FileNotFoundError:
                                    pass
                        return me.pkg
                    m = me.mod(rest)
                    if fromlist:
                        for f in fromlist:
                            if not hasattr(m, f):
                                try:
                                    me.mod(rest + "." + f)
                                except FileNotFoundError:
                                    pass
                        return m
                    return me.pkg
                return builtins.__import__(nm, globals, locals, fromlist, level)
            # relative import
            pkgname = globals.get("__package__") if globals else None
            if pkgname and (pkgname == me.name or pkgname.startswith(me.name + ".")):
                base = pkgname[len(me.name):].lstrip(".")
                parts = base.split(".") if base else []
                if level > 1:
                    parts = parts[: len(parts) - (level - 1)]
                target = ".".join(parts + ([nm] if nm else []))
                if target == "":
                    for f in fromlist or ():
                        try:
                            me.mod(f)
                        except FileNotFoundError:
                            pass
                    return me.pkg
                m = me.mod(target)
                for f in fromlist or ():
                    if not hasattr(m, f):
                        try:
                            me.mod(target + "." + f)
                        except FileNotFoundError:
                            pass
                return m
            return builtins.__import__(nm, globals, locals, fromlist, level)

        return my_import

    def unload(self):
        for k in [k for k in sys.modules if k == self.name or k.startswith(self.name + ".")]:
            del sys.modules[k]


def function_sha(mod, qualname):
    """sha256 of the source text of a function/class in a loaded module (evidence)."""
    import inspect
    src = open(mod.__file__).read()
    tree = ast.parse(src)
    parts = qualname.split(".")
    body = tree.body
    node = None
    for p in parts:
        node = next((n for n in body if isinstance(n, (ast.FunctionDef, ast.ClassDef)) and n.name == p), None)
        if node is None:
            return None
        body = node.body
    seg = ast.get_source_segment(src, node)
    return hashlib.sha256(seg.encode()).hexdigest()[:16]
