"""Contract stubs used when verifying the generators (C10): math.exp as an uninterpreted monotone positive
function; networkx graph generators as 'some graph on n nodes whose adjacency entries are >= 0' (A6)."""
from __future__ import annotations

import math as _math
import types

import numpy as _np
import z3

from .core import CTX, SV, Unsupported

_EXP = z3.Function("exp", z3.RealSort(), z3.RealSort())


def sym_exp(x):
    if isinstance(x, SV) and x.c is None:
        t = x.zr()
        r = SV(t=_EXP(t))
        apps = CTX.notes.setdefault("exp_apps", [])
        CTX.assume(r.t > 0)
        CTX.assume(z3.Implies(t >= 0, r.t >= 1))
        for (a, ea) in apps:
            CTX.assume(z3.Implies(a <= t, ea <= r.t))
            CTX.assume(z3.Implies(t <= a, r.t <= ea))
        apps.append((t, r.t))
        return r
    if isinstance(x, SV):
        # concrete argument: keep it inside the same uninterpreted function so that facts compose
        t = x.zr()
        r = SV(t=_EXP(t))
        apps = CTX.notes.setdefault("exp_apps", [])
        CTX.assume(r.t > 0)
        if x.c == 0:
            CTX.assume(r.t == 1)
        CTX.assume(z3.Implies(t >= 0, r.t >= 1))
        for (a, ea) in apps:
            CTX.assume(z3.Implies(a <= t, ea <= r.t))
            CTX.assume(z3.Implies(t <= a, r.t <= ea))
        apps.append((t, r.t))
        return r
    return _math.exp(x)


def math_stub():
    from .loader import _math_stub
    m = _math_stub()           # exact fsum / sqrt / ... for model scalars; the rest is the real module
    m.exp = sym_exp
    return m


class SpecGraph:
    def __init__(self, n, tag):
        self.n = n
        self.tag = tag


class _Adj:
    def __init__(self, arr):
        self.arr = arr

    def toarray(self):
        return self.arr


def networkx_stub():
    from . import symnp
    m = types.ModuleType("networkx")
    counter = [0]

    class Graph:
        pass

    def make(name, extra_nodes=0):
        def gen(n, *a, seed=None, **k):
            counter[0] += 1
            if seed is not None and hasattr(seed, "_log"):
                seed._log("networkx." + name)
            CTX.notes.setdefault("rng_log", [])
            return SpecGraph(int(n) + extra_nodes, f"{name}{counter[0]}")
        gen.__name__ = name
        return gen

    def adjacency_matrix(g):
        a = _np.empty((g.n, g.n), dtype=object)
        M = CTX.notes.get("M")
        for i in range(g.n):
            for j in range(g.n):
                c = z3.Real(f"adj.{g.tag}.{i}.{j}")
                if M is not None:
                    M.inputs[f"adj.{g.tag}.{i}.{j}"] = c
                CTX.assume(c >= 0)
                a[i, j] = SV(t=c)
        return _Adj(a.view(symnp.VArr))

    m.Graph = Graph
    m.adjacency_matrix = adjacency_matrix
    for nm in ("connected_watts_strogatz_graph", "geographical_threshold_graph", "gnp_random_graph",
               "random_geometric_graph", "random_internet_as_graph"):
        setattr(m, nm, make(nm))
    return m
