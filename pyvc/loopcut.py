"""R-loopcut: replace the k-th loop of a function by its invariant cut.

    for T in ITER: BODY
becomes
    _vc_iter = ITER
    vcl_.enter(lid, locals(), _vc_iter)            # obligation: Inv on entry
    if vcl_.arbitrary(lid):                        # path A: an arbitrary iteration
        T = vcl_.havoc_iter(lid, locals(), _vc_iter)   # havoc modifies-set, assume Inv(i), 0 <= i < hi
        BODY
        vcl_.iter_end(lid, locals(), _vc_iter)     # obligation: Inv(i+1) and the frame; path stops
    else:                                          # path B: exit
        vcl_.havoc_exit(lid, locals(), _vc_iter)   # havoc, assume Inv(hi); continue after the loop
The contract (invariant, modifies clause as a havoc function, frame check) is supplied by the
sidecar scenario, keyed by `lid`.
"""
from __future__ import annotations

import ast

import z3

from .core import CTX, SB, SV, StopPath, Unsupported


class SymRange:
    """range(E) with a symbolic bound: only usable through a cut loop."""

    def __init__(self, hi):
        self.hi = hi

    def __iter__(self):
        raise Unsupported("iteration over a range with a symbolic bound outside a cut loop")


def sym_range(*a):
    if any(isinstance(x, SV) and x.c is None for x in a):
        if len(a) != 1:
            raise Unsupported("symbolic range with start/step")
        return SymRange(a[0])
    return range(*[int(x) if isinstance(x, SV) else x for x in a])


class Cut(ast.NodeTransformer):
    def __init__(self, fname, ordinal, lid):
        self.fname, self.ordinal, self.lid = fname, ordinal, lid
        self.infn = False
        self.count = -1
        self.hit = 0
        self.carried = None

    def visit_FunctionDef(self, node):
        if node.name == self.fname and not self.infn:
            self.infn = True
            self.count = -1
            self.fnode = node
            node.body = self._flat(node.body)
            self.infn = False
        return node

    def _flat(self, stmts):
        out = []
        for st in stmts:
            r = self.visit(st)
            out.extend(r if isinstance(r, list) else [r])
        return out

    def generic_visit(self, node):
        for field, old in ast.iter_fields(node):
            if isinstance(old, list) and old and isinstance(old[0], ast.stmt):
                setattr(node, field, self._flat(old))
            elif isinstance(old, ast.AST):
                new = self.visit(old)
                setattr(node, field, new)
        return node

    def _loop(self, node):
        if not self.infn:
            return node
        self.count += 1
        if self.count != self.ordinal:
            node.body = self._flat(node.body)
            return node
        if not isinstance(node, ast.For) or node.orelse:
            raise Unsupported("R-loopcut handles for-loops without else")
        if not isinstance(node.target, ast.Name):
            raise Unsupported("R-loopcut needs a simple loop target")
        self.hit += 1
        self._check_carried(node)
        lid = ast.Constant(self.lid)

        def call(f, *a):
            return ast.Call(ast.Attribute(ast.Name("vcl_", ast.Load()), f, ast.Load()), list(a), [])

        loc = ast.Call(ast.Name("locals", ast.Load()), [], [])
        it = ast.Name("_vc_iter", ast.Load())
        body = _BreakContinue().rewrite(node.body)
        exc = lambda name: ast.Attribute(ast.Name("vcl_", ast.Load()), name, ast.Load())
        guarded = ast.Try(
            body=body + [ast.Expr(call("iter_end", lid, loc, it))],
            handlers=[ast.ExceptHandler(type=exc("Continue"), name=None, body=[ast.Expr(call("iter_end", lid, loc, it))]),
                      # `break`: the loop is left from this (arbitrary) iteration; execution goes on after the loop
                      ast.ExceptHandler(type=exc("Break"), name=None, body=[ast.Expr(call("left_by_break", lid, loc, it))])],
            orelse=[], finalbody=[])
        new = [
            ast.Assign([ast.Name("_vc_iter", ast.Store())], node.iter),
            ast.Expr(call("enter", lid, loc, it)),
            ast.If(call("arbitrary", lid),
                   [ast.Assign([node.target], call("havoc_iter", lid, loc, it)), guarded],
                   [ast.Expr(call("havoc_exit", lid, loc, it))]),
        ]
        return [ast.fix_missing_locations(ast.copy_location(n, node)) for n in new]

    visit_For = _loop
    visit_While = _loop

    def _check_carried(self, loop):
        """Locals assigned in the body must not be read after the loop before being re-assigned
        (they are not part of the modifies clause and are not havoced)."""
        stored = {n.id for b in loop.body for n in ast.walk(b) if isinstance(n, ast.Name) and isinstance(n.ctx, ast.Store)}
        stored.add(loop.target.id)
        end = (loop.end_lineno, loop.end_col_offset)
        later = sorted((n for n in ast.walk(self.fnode) if isinstance(n, ast.Name) and (n.lineno, n.col_offset) > end),
                       key=lambda n: (n.lineno, n.col_offset))
        first = {}
        for n in later:
            if n.id in stored and n.id not in first:
                first[n.id] = n
        bad = [k for k, n in first.items() if isinstance(n.ctx, ast.Load)]
        # a name stored and loaded in the same later statement where the store comes from a `for` target
        # or an earlier assignment is fine; the order above is textual, which is conservative for straight-line code
        if bad:
            raise Unsupported(f"loop-carried locals {bad} are read after the cut loop")


class _BreakContinue(ast.NodeTransformer):
    """`break` / `continue` that belong to the cut loop become exceptions handled by the cut."""

    def rewrite(self, stmts):
        return [self.visit(s) for s in stmts]

    def visit_For(self, node):      # nested loops keep their own break/continue
        return node

    visit_While = visit_For
    visit_FunctionDef = visit_For
    visit_Lambda = visit_For

    def visit_Break(self, node):
        return ast.copy_location(ast.Raise(ast.Call(ast.Attribute(ast.Name("vcl_", ast.Load()), "Break", ast.Load()), [], []), None), node)

    def visit_Continue(self, node):
        return ast.copy_location(ast.Raise(ast.Call(ast.Attribute(ast.Name("vcl_", ast.Load()), "Continue", ast.Load()), [], []), None), node)


def cut_tree(tree, fname, ordinal, lid):
    c = Cut(fname, ordinal, lid)
    tree = c.visit(tree)
    ast.fix_missing_locations(tree)
    if c.hit != 1:
        raise Unsupported(f"loop {fname}#{ordinal} not found (the function changed shape)")
    return tree


class _Break(Exception):
    pass


class _Continue(Exception):
    pass


class CutRuntime:
    Break = _Break
    Continue = _Continue
    """Run-time half of the cut.  spec[lid] = dict(inv=f(loc, i)->SB, havoc=f(loc), frame=f(loc)->snapshot,
    frame_ok=f(snapshot, loc)->SB)."""

    def __init__(self):
        self.mode = "iter"
        self.spec = {}
        self.i = None
        self.snap = None

    def enter(self, lid, loc, it):
        sp = self.spec[lid]
        CTX.oblige(f"loop[{lid}].inv_on_entry", sp["inv"](loc, SV.lift(0)), kind="loop-invariant")

    def arbitrary(self, lid):
        return self.mode == "iter"

    def _hi(self, it):
        if isinstance(it, SymRange):
            return it.hi
        if isinstance(it, range) and it.start == 0 and it.step == 1:
            return SV.lift(it.stop)
        raise Unsupported("cut loop over something that is not range(E)")

    def havoc_iter(self, lid, loc, it):
        sp = self.spec[lid]
        hi = self._hi(it)
        M = CTX.notes.get("M")
        i = M.int(f"loop.{lid}.i") if M is not None else SV(t=z3.Int(f"loop.{lid}.i"))
        CTX.assume(i >= 0)
        CTX.assume(i < hi)
        if bool(i == 0):
            # the first iteration starts from the ACTUAL entry state (nothing is forgotten): the invariant need not
            # say anything about it, which keeps the cut independent of how much work is done before the loop
            pass
        else:
            sp["havoc"](loc, "iter")
        CTX.assume(sp["inv"](loc, i))
        if "frame" in sp:
            self.snap = sp["frame"](loc)
        self.i = i
        return i

    def left_by_break(self, lid, loc, it):
        # leaving through `break` from an arbitrary iteration: the invariant of that iteration is all that is known
        return None

    def iter_end(self, lid, loc, it):
        sp = self.spec[lid]
        CTX.oblige(f"loop[{lid}].inv_preserved", sp["inv"](loc, self.i + 1), kind="loop-invariant")
        if "frame" in sp:
            CTX.oblige(f"loop[{lid}].modifies", sp["frame_ok"](self.snap, loc), kind="frame")
        if "variant" in sp:
            for nm, cl in sp["variant"](loc, self.i):
                CTX.oblige(f"loop[{lid}].{nm}", cl, kind="loop-lemma")
        raise StopPath()

    def havoc_exit(self, lid, loc, it):
        sp = self.spec[lid]
        hi = self._hi(it)
        if bool(SV.lift(hi) == 0):
            return            # zero iterations: the state after the loop is the actual entry state
        sp["havoc"](loc, "exit")
        CTX.assume(sp["inv"](loc, hi))
