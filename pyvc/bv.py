"""Bit-vector integers (SI) for the scalar coalition operations of C18: coalition ids and players are
W-bit vectors, so one obligation covers every coalition (pair) of every player count n <= W."""
from __future__ import annotations

import z3

from .core import CTX, SB, SV, Unsupported


class SI:
    __slots__ = ("t", "w")

    def __init__(self, t, w):
        self.t = t
        self.w = w

    @staticmethod
    def const(name, w):
        return SI(z3.BitVec(name, w), w)

    def _l(self, o):
        if isinstance(o, SI):
            return o.t
        if isinstance(o, bool):
            o = int(o)
        if isinstance(o, int):
            return z3.BitVecVal(o, self.w)
        raise TypeError(type(o))

    def _b(self, o, f):
        try:
            return SI(f(self.t, self._l(o)), self.w)
        except TypeError:
            return NotImplemented

    def __and__(s, o):
        return s._b(o, lambda a, b: a & b)

    __rand__ = __and__

    def __or__(s, o):
        return s._b(o, lambda a, b: a | b)

    __ror__ = __or__

    def __xor__(s, o):
        return s._b(o, lambda a, b: a ^ b)

    __rxor__ = __xor__

    def __add__(s, o):
        return s._b(o, lambda a, b: a + b)

    __radd__ = __add__

    def __sub__(s, o):
        return s._b(o, lambda a, b: a - b)

    def __rsub__(s, o):
        return SI(s._l(o) - s.t, s.w)

    def __invert__(s):
        return SI(~s.t, s.w)

    def __rshift__(s, o):
        return s._b(o, lambda a, b: z3.LShR(a, b))

    def __lshift__(s, o):
        return s._b(o, lambda a, b: a << b)

    def __rlshift__(s, o):
        return SI(s._l(o) << s.t, s.w)

    def __rpow__(s, base):
        if base == 2:
            return SI(z3.BitVecVal(1, s.w) << s.t, s.w)
        raise Unsupported("power with a symbolic exponent and base != 2")

    def __eq__(s, o):
        try:
            return SB(t=s.t == s._l(o))
        except TypeError:
            return False

    def __ne__(s, o):
        try:
            return SB(t=s.t != s._l(o))
        except TypeError:
            return True

    def __lt__(s, o):
        return SB(t=z3.ULT(s.t, s._l(o)))

    def __le__(s, o):
        return SB(t=z3.ULE(s.t, s._l(o)))

    def __gt__(s, o):
        return SB(t=z3.UGT(s.t, s._l(o)))

    def __ge__(s, o):
        return SB(t=z3.UGE(s.t, s._l(o)))

    def __bool__(s):
        return bool(SB(t=s.t != 0))

    __hash__ = None

    def __repr__(s):
        return f"SI({s.t})"


def bit(x, i):
    """Membership of element i in the set x (SB or bool)."""
    if isinstance(x, SI):
        return SB(t=z3.Extract(i, i, x.t) == 1)
    return bool((int(x) >> i) & 1)


def bit_dyn(x, p, w):
    """Membership of the (possibly symbolic) element p."""
    if isinstance(x, SI) or isinstance(p, SI):
        xt = x.t if isinstance(x, SI) else z3.BitVecVal(int(x), w)
        pt = p.t if isinstance(p, SI) else z3.BitVecVal(int(p), w)
        return SB(t=(z3.LShR(xt, pt) & 1) == 1)
    return bool((int(x) >> int(p)) & 1)


def popcount_spec(x, w):
    """Number of elements, as an SI/int, defined elementwise."""
    if isinstance(x, SI):
        tot = z3.BitVecVal(0, x.w)
        for i in range(w):
            tot = tot + z3.ZeroExt(x.w - 1, z3.Extract(i, i, x.t))
        return SI(tot, x.w)
    return bin(int(x)).count("1")
