"""Scenario modes.  A *scenario* is one Python function `scenario(M, **params)` that declares
its inputs through M, assumes the contract's precondition, runs functions of the repository
(obtained from M.pkg) and states every postcondition with M.check.  The same text is

* executed symbolically (SymMode): inputs are z3 symbols, the package is the repository's
  source loaded under the numpy model, every M.check is a proof obligation;
* executed natively (NativeMode): inputs come from a dictionary (a counterexample being
  replayed, or a sampled input of a bounded run), the package is the real
  `incomplete_cooperative` imported from $REPO_ROOT with real numpy/float64, every M.check
  is evaluated numerically with a stated tolerance.
"""
from __future__ import annotations

import importlib
import os
import sys
from fractions import Fraction

import z3

from . import core
from .core import CTX, SB, SV


class PreconditionNotMet(Exception):
    pass


# ---------------------------------------------------------------------------------------------
class SymMode:
    symbolic = True

    def __init__(self, pkg):
        self.pkg = pkg                 # loader.Package
        self.inputs = {}               # name -> z3 const (declaration order kept)
        self.meta = {}

    def mod(self, name):
        return self.pkg.mod(name)

    # inputs
    def real(self, name):
        if name not in self.inputs:
            self.inputs[name] = z3.Real(name)
        return SV(t=self.inputs[name])

    def bool(self, name):
        if name not in self.inputs:
            self.inputs[name] = z3.Bool(name)
        return SB(t=self.inputs[name])

    def int(self, name, lo=None, hi=None):
        if name not in self.inputs:
            self.inputs[name] = z3.Int(name)
        t = self.inputs[name]
        if lo is not None:
            CTX.assume(t >= lo)
        if hi is not None:
            CTX.assume(t <= hi)
        return SV(t=t)

    def const(self, x):
        return SV.lift(x)

    def is_true_or_none(self, x):
        """Concrete truth of x; a symbolic x forks (used for data-dependent early termination in specs)."""
        return bool(SB.lift(x))

    def fork_selections(self, on=True):
        """Comprehension / filter conditions on symbolic data fork from here on (concrete selections)."""
        CTX.notes["fork_selections"] = on

    def generator(self):
        """The `generator` argument handed to a game generator: every draw a fresh symbol (support only)."""
        from . import rng
        g = rng.SymGenerator("arg")
        g.is_argument = True
        return g

    def nonempty(self, it):
        from . import guarded
        if not isinstance(it, (guarded.GList,)):
            it = list(it) if not hasattr(it, "nonempty") else it
        t = guarded.truth(it)
        return t if isinstance(t, SB) else SB(c=bool(t))

    def bv(self, name, w):
        from .bv import SI
        if name not in self.inputs:
            self.inputs[name] = z3.BitVec(name, w)
        return SI(self.inputs[name], w)

    def val(self, x):
        if isinstance(x, (SV, SB)):
            return x
        if isinstance(x, (bool,)):
            return SB(c=x)
        return SV.lift(x)

    def assume(self, cond):
        CTX.assume(cond)

    def check(self, name, cond, **meta):
        CTX.oblige(name, cond, **meta)

    # logic
    def and_(self, *xs):
        r = SB(c=True)
        for x in xs:
            r = r & SB.lift(x)
        return r

    def or_(self, *xs):
        r = SB(c=False)
        for x in xs:
            r = r | SB.lift(x)
        return r

    def not_(self, x):
        return ~SB.lift(x)

    def implies(self, a, b):
        return (~SB.lift(a)) | SB.lift(b)

    def same_computation_lt(self, a, b):
        """a < b for two numbers that the code under test and the scenario obtain by the SAME sequence of
        operations (so that natively the comparison is exact, without tolerance)."""
        return SV.lift(a) < SV.lift(b)

    def ite(self, g, a, b):
        return core.ite(SB.lift(g), a, b)

    def iff(self, a, b):
        a, b = SB.lift(a), SB.lift(b)
        return (a & b) | ((~a) & (~b))

    def div_or(self, a, b, default):
        """a / b where b != 0, `default` where b == 0 (no division obligation)."""
        a, b = SV.lift(a), SV.lift(b)
        if b.c is not None:
            return a / b if b.c != 0 else default
        return core.ite(b != 0, SV(t=a.zr() / b.zr()), default)

    def is_nan(self, x):
        """NaN-ness of a value of the model: NaN is a poison symbol (nan!k); it propagates through arithmetic
        and is selected by if-then-else exactly as IEEE NaN would be."""
        if x is None:
            return SB(c=False)
        x = SV.lift(x)
        if x.c is not None:
            return SB(c=False)
        return SB.lift(_nan_term(x.t))

    def sum_is_one(self, probs):
        """sum(probs) == 1.  When every symbolic term is a quotient num_a / den with one common denominator, the
        sufficient linear condition  sum(num_a) == den  (den != 0 on the path) is stated instead."""
        probs = [SV.lift(p) for p in probs]
        sym = [p for p in probs if p.c is None]
        if sym and all(z3.is_app_of(p.t, z3.Z3_OP_DIV) for p in sym):
            dens = [p.t.arg(1) for p in sym]
            if all(d.eq(dens[0]) for d in dens) and all(p.c == 0 for p in probs if p.c is not None):
                tot = z3.Sum(*[p.t.arg(0) for p in sym]) if len(sym) > 1 else sym[0].t.arg(0)
                return SB(t=z3.And(tot == dens[0], dens[0] != 0))
        return self.sum_(probs) == 1

    def count(self, flags):
        r = SV.lift(0)
        for f in flags:
            r = r + SV.lift(SB.lift(f))
        return r

    def sum_(self, xs):
        r = SV.lift(0)
        for x in xs:
            r = r + SV.lift(x)
        return r

    def max_(self, xs):
        xs = [SV.lift(x) for x in xs]
        m = xs[0]
        for x in xs[1:]:
            m = core.ite(x > m, x, m)
        return m

    def min_(self, xs):
        xs = [SV.lift(x) for x in xs]
        m = xs[0]
        for x in xs[1:]:
            m = core.ite(x < m, x, m)
        return m

    def abs_(self, x):
        return abs(SV.lift(x))

    def is_true(self, x):
        """Concrete truth of a structural (non-data) condition."""
        x = SB.lift(x)
        if x.c is None:
            raise core.Unsupported("structural condition is symbolic")
        return x.c

    # game table helper: one row of an IncompleteCooperativeGame
    def put_row(self, game, cid, known, value, lo, up):
        """Row := (known, value, value) if known else (0, lo, up)."""
        known = SB.lift(known)
        game._values[cid, 0] = core.ite(known, SV.lift(1), SV.lift(0))
        game._values[cid, 1] = core.ite(known, value, lo)
        game._values[cid, 2] = core.ite(known, value, up)

    def expect_raises(self, exc_types, thunk):
        """Run thunk; return True iff it raised one of exc_types.  While the thunk runs, `assert` statements
        with a symbolic condition fork (Python semantics) instead of becoming obligations."""
        old = CTX.notes.get("assert_forks")
        CTX.notes["assert_forks"] = True
        try:
            thunk()
        except exc_types:
            return True
        finally:
            CTX.notes["assert_forks"] = old
        return False


def _nan_term(t):
    if z3.is_const(t):
        return z3.BoolVal(t.decl().kind() == z3.Z3_OP_UNINTERPRETED and t.decl().name().startswith("nan!"))
    if z3.is_app_of(t, z3.Z3_OP_ITE):
        c, a, b = t.children()
        na, nb = _nan_term(a), _nan_term(b)
        if z3.is_false(na) and z3.is_false(nb):
            return z3.BoolVal(False)
        return z3.simplify(z3.If(c, na, nb))
    parts = [_nan_term(c) for c in t.children() if z3.is_arith(c)]
    parts = [p for p in parts if not z3.is_false(p)]
    if not parts:
        return z3.BoolVal(False)
    return z3.simplify(z3.Or(*parts))


# ---------------------------------------------------------------------------------------------
class NV(float):
    """Native value with tolerant comparisons (|a-b| <= tol * max(1,|a|,|b|) counts as equal)."""

    tol = 1e-9
    unit = 1.0          # magnitude floor of the tolerance; inputs may carry "__unit__" (scaled-input layers)

    def _eps(self, o):
        return NV.tol * max(NV.unit, abs(float(self)), abs(float(o)))

    def __le__(self, o):
        return float(self) <= float(o) + self._eps(o)

    def __ge__(self, o):
        return float(self) >= float(o) - self._eps(o)

    def __lt__(self, o):
        return float(self) < float(o) - self._eps(o)

    def __gt__(self, o):
        return float(self) > float(o) + self._eps(o)

    def __eq__(self, o):
        if o is None:
            return False
        return abs(float(self) - float(o)) <= self._eps(o)

    def __ne__(self, o):
        return not self.__eq__(o)

    __hash__ = float.__hash__

    def _w(self, r):
        return NV(r)

    def __add__(self, o):
        return NV(float(self) + float(o))

    __radd__ = __add__

    def __sub__(self, o):
        return NV(float(self) - float(o))

    def __rsub__(self, o):
        return NV(float(o) - float(self))

    def __mul__(self, o):
        return NV(float(self) * float(o))

    __rmul__ = __mul__

    def __truediv__(self, o):
        return NV(float(self) / float(o))

    def __rtruediv__(self, o):
        return NV(float(o) / float(self))

    def __neg__(self):
        return NV(-float(self))

    def __abs__(self):
        return NV(abs(float(self)))


class _NativePkg:
    def __init__(self, root):
        self.root = root
        self.name = "incomplete_cooperative"

    def mod(self, name):
        return importlib.import_module("incomplete_cooperative." + name)


def native_pkg():
    root = os.environ.get("REPO_ROOT", "/repo")
    if root not in sys.path:
        sys.path.insert(0, root)
    # make sure an already imported copy from another root is not reused
    m = sys.modules.get("incomplete_cooperative")
    if m is not None and not os.path.abspath(getattr(m, "__file__", "") or "").startswith(os.path.abspath(root)):
        for k in [k for k in sys.modules if k == "incomplete_cooperative" or k.startswith("incomplete_cooperative.")]:
            del sys.modules[k]
    return _NativePkg(root)


class NativeMode:
    symbolic = False

    def __init__(self, inputs, tol=1e-9, pkg=None):
        self.pkg = pkg or native_pkg()
        self.auto = bool(getattr(inputs, "auto", False))       # rt.gen.AutoGiven: missing names are drawn on demand
        self.given = inputs if self.auto else dict(inputs)
        self.inputs = {}
        self.failures = []             # (name, meta)
        self.checks = 0
        self.tol = tol
        NV.tol = tol
        NV.unit = 1.0 if self.auto else float(self.given.get("__unit__", 1.0))
        self.meta = {}

    def mod(self, name):
        return self.pkg.mod(name)

    @staticmethod
    def _num(x):
        if isinstance(x, str):
            return float(Fraction(x))
        return float(x)

    def real(self, name):
        v = self._num(self.given.draw_real(name) if self.auto else self.given.get(name, 0))
        self.inputs[name] = v
        return v

    def bool(self, name):
        v = self.given.draw_bool(name) if self.auto else self.given.get(name, False)
        if isinstance(v, str):
            v = v.lower() == "true"
        v = bool(v)
        self.inputs[name] = v
        return v

    def int(self, name, lo=None, hi=None):
        v = int(self._num(self.given.draw_int(name, lo, hi) if self.auto else self.given.get(name, lo if lo is not None else 0)))
        self.inputs[name] = v
        if (lo is not None and v < lo) or (hi is not None and v > hi):
            raise PreconditionNotMet(f"{name}={v} outside [{lo},{hi}]")
        return v

    def const(self, x):
        return float(x)

    def is_true_or_none(self, x):
        return bool(x)

    def fork_selections(self, on=True):
        pass

    def generator(self):
        import numpy as np
        from rt.replay_rng import ReplayGenerator, draws_from_inputs
        d = draws_from_inputs(self.given)
        if d:
            return ReplayGenerator(d)
        seed = self.given.draw_int("seed", 0, 1 << 30) if self.auto else self.given.get("seed", 0)
        self.inputs.setdefault("seed", int(seed))
        return np.random.default_rng(int(seed))

    def nonempty(self, it):
        return len(list(it)) > 0

    def bv(self, name, w):
        v = int(self._num(self.given.draw_bv(name, w) if self.auto else self.given.get(name, 0))) & ((1 << w) - 1)
        self.inputs[name] = v
        return v

    def val(self, x):
        if isinstance(x, (bool,)) or type(x).__name__ == "bool_" or type(x).__name__ == "bool":
            return bool(x)
        if x is None:
            return None
        return NV(float(x))

    def assume(self, cond):
        if not bool(cond):
            raise PreconditionNotMet()

    def check(self, name, cond, **meta):
        self.checks += 1
        if not bool(cond):
            self.failures.append((name, meta))

    def and_(self, *xs):
        return all(bool(x) for x in xs)

    def or_(self, *xs):
        return any(bool(x) for x in xs)

    def not_(self, x):
        return not bool(x)

    def implies(self, a, b):
        return (not bool(a)) or bool(b)

    def same_computation_lt(self, a, b):
        return float(a) < float(b)

    def ite(self, g, a, b):
        return a if bool(g) else b

    def iff(self, a, b):
        return bool(a) == bool(b)

    def div_or(self, a, b, default):
        return NV(float(a) / float(b)) if float(b) != 0 else default

    def count(self, flags):
        return sum(1 for f in flags if bool(f))

    def sum_is_one(self, probs):
        return NV(sum(float(p) for p in probs)) == 1

    def is_nan(self, x):
        return x is not None and float(x) != float(x)

    def sum_(self, xs):
        return NV(sum(float(x) for x in xs))

    def max_(self, xs):
        return NV(max(float(x) for x in xs))

    def min_(self, xs):
        return NV(min(float(x) for x in xs))

    def abs_(self, x):
        return NV(abs(float(x)))

    def is_true(self, x):
        return bool(x)

    def put_row(self, game, cid, known, value, lo, up):
        C = self.mod("coalitions").Coalition
        if known:
            game.set_value(value, C(cid))
        else:
            game.unset_value(C(cid))
            game.set_lower_bound(lo, C(cid))
            game.set_upper_bound(up, C(cid))

    def expect_raises(self, exc_types, thunk):
        try:
            thunk()
        except exc_types:
            return True
        return False
