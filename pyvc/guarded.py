"""Guarded lists, the mechanical source rewrites (R-not, R-comp, R-boolop, R-assert) and
the symbolic-aware builtins injected into the loaded repository modules."""
from __future__ import annotations

import ast
import builtins as _b

import numpy as _np

from . import symnp
from .core import CTX, SB, SV, Unsupported, guard_now


class GList:
    """A list whose element i is present iff guards[i]."""

    def __init__(s, items, guards):
        s.items = list(items)
        s.guards = list(guards)

    def __iter__(s):
        for g, v in zip(s.guards, s.items):
            if g.c is False:
                continue
            CTX.tick()
            CTX.guards.append(g)
            try:
                yield v
            except GeneratorExit:
                if guard_now().c is None:
                    CTX.early_close = CTX.guard_terms()
                raise
            finally:
                CTX.guards.pop()

    def __len__(s):
        if _b.all(g.c is not None for g in s.guards):
            return _b.sum(1 for g in s.guards if g.c)
        raise Unsupported("len() of a guarded list")

    def nonempty(s):
        r = SB(c=False)
        for g in s.guards:
            r = r | g
        return r

    def __bool__(s):
        return _b.bool(s.nonempty())


def truth(x):
    """Truth value of x as an SB (symbolic) or bool."""
    if isinstance(x, SB):
        return x if x.c is None else x.c
    if isinstance(x, SV):
        return (x != 0) if x.c is None else _b.bool(x.c)
    if isinstance(x, (GList, symnp.GA)):
        r = x.nonempty()
        return r if r.c is None else r.c
    if isinstance(x, _np.ndarray) and x.dtype == object and x.size == 1:
        return truth(x.flat[0])
    return _b.bool(x)


def not_(x):
    t = truth(x)
    if isinstance(t, SB):
        return ~t
    return not t


class _BoolMeta(type):
    def __instancecheck__(cls, inst):
        return isinstance(inst, _b.bool)


class sym_bool(metaclass=_BoolMeta):
    """`bool` as seen by the loaded modules: bool(x) keeps a symbolic truth value symbolic;
    still usable as a dtype and in isinstance()."""

    _vc_native = _b.bool

    def __new__(cls, x=False):
        return truth(x)


def or_(first, *rest):
    """`a or b or ...` (operands as thunks).  Short-circuit order is Python's for concrete
    operands; once an operand is a symbolic Boolean the remaining operands are evaluated
    (they must be pure) and the result is the non-forking disjunction."""
    v = first()
    t = truth(v)
    if not isinstance(t, SB):
        if t or not rest:
            return v
        return or_(*rest)
    if not rest:
        return v
    r = or_(*rest)
    rt = truth(r)
    return t | (rt if isinstance(rt, SB) else SB(c=rt))


def and_(first, *rest):
    v = first()
    t = truth(v)
    if not isinstance(t, SB):
        if (not t) or not rest:
            return v
        return and_(*rest)
    if not rest:
        return v
    r = and_(*rest)
    rt = truth(r)
    return t & (rt if isinstance(rt, SB) else SB(c=rt))


def assert_(thunk, where, msg_thunk=None):
    """`assert e`: a concrete false raises as Python does; a symbolic e becomes the obligation
    `assert@where` and is assumed afterwards (classical VC treatment, no fork)."""
    v = thunk()
    t = truth(v)
    if isinstance(t, SB):
        if CTX.notes.get("assert_forks"):
            t = _b.bool(t)          # Python semantics: fork, the failing side raises
        else:
            CTX.oblige("assert@" + where, t, kind="assert")
            CTX.assume(t)
            return
    if not t:
        if msg_thunk is not None:
            raise AssertionError(msg_thunk())
        raise AssertionError()


def comp(kind, elt, src, cond):
    """[elt(x) for x in src if cond(x)] with possibly symbolic cond."""
    items, guards, sym = [], [], False
    if isinstance(src, GList):
        pairs = list(zip(src.items, src.guards))
        sym = True
    elif isinstance(src, symnp.GA):
        pairs = list(zip(list(src.vals), src.guards))
        sym = True
    else:
        pairs = [(x, SB(c=True)) for x in src]
    for x, g in pairs:
        if cond is None:
            c = SB(c=True)
        else:
            c = truth(cond(x))
            if isinstance(c, SB) and CTX.notes.get("fork_selections"):
                c = _b.bool(c)          # the scenario asked for concrete selections: fork on the condition
            if not isinstance(c, SB):
                c = SB(c=c)
        gg = g & c
        if gg.c is False:
            continue
        if gg.c is None:
            sym = True
        items.append(elt(x))
        guards.append(gg)
    if not sym or _b.all(g.c is True for g in guards):
        return items if kind == "list" else iter(items)
    return GList(items, guards)


def g_filter(pred, it):
    return comp("gen", lambda x: x, it, (lambda x: truth(x)) if pred is None else pred)


def g_map(f, *its):
    if len(its) == 1 and isinstance(its[0], GList):
        return GList([f(x) for x in its[0].items], its[0].guards)
    if len(its) == 1 and isinstance(its[0], symnp.GA):
        return GList([f(x) for x in its[0].vals], its[0].guards)
    return _b.map(f, *its)


class _ListMeta(type):
    def __instancecheck__(cls, inst):
        return isinstance(inst, _b.list)

    def __getitem__(cls, item):
        return _b.list[item]


class g_list(metaclass=_ListMeta):
    def __new__(cls, it=()):
        if isinstance(it, GList):
            return it
        if isinstance(it, symnp.GA):
            return GList(list(it.vals), it.guards)
        return _b.list(it)


def g_sorted(it, key=None, reverse=False):
    if isinstance(it, GList):
        order = _b.sorted(range(len(it.items)), key=lambda i: key(it.items[i]) if key else it.items[i],
                          reverse=reverse)
        return GList([it.items[i] for i in order], [it.guards[i] for i in order])
    return _b.sorted(it, key=key, reverse=reverse)


def g_len(x):
    return len(x)


def g_all(it):
    r = SB(c=True)
    sym = False
    if isinstance(it, GList):
        for g, v in zip(it.guards, it.items):
            t = truth(v)
            r = r & ((~g) | (t if isinstance(t, SB) else SB(c=t)))
        return r if r.c is None else r.c
    for v in it:
        t = truth(v)
        if isinstance(t, SB):
            sym = True
            r = r & t
        elif not t:
            if not sym:
                return False
            return False
    return r if (sym and r.c is None) else (r.c if r.c is not None else r)


def g_any(it):
    r = SB(c=False)
    sym = False
    if isinstance(it, GList):
        for g, v in zip(it.guards, it.items):
            t = truth(v)
            r = r | (g & (t if isinstance(t, SB) else SB(c=t)))
        return r if r.c is None else r.c
    for v in it:
        t = truth(v)
        if isinstance(t, SB):
            sym = True
            r = r | t
        elif t:
            return True
    return r if (sym and r.c is None) else (r.c if r.c is not None else r)


def g_sum(it, start=0):
    if isinstance(it, (GList, symnp.GA)):
        raise Unsupported("sum of a guarded list")
    return _b.sum(it, start)


def g_abs(x):
    return abs(x)


def g_round(x, nd=None):
    return round(x, nd)


def g_float(x=0.0):
    if isinstance(x, SV):
        return x
    return _b.float(x)


class _FloatMeta(type):
    def __instancecheck__(cls, inst):
        return isinstance(inst, (_b.float, SV))


class g_floatcls(metaclass=_FloatMeta):
    def __new__(cls, x=0.0):
        if isinstance(x, (SV, SB)):
            return SV.lift(x)
        return _b.float(x)


def g_isinstance(obj, cls):
    from .bv import SI
    if isinstance(obj, SI):
        clss = cls if isinstance(cls, tuple) else (cls,)
        return _b.int in clss
    return isinstance(obj, cls)


_MISSING = object()


def g_next(it, default=_MISSING):
    if isinstance(it, GList):
        for g, v in zip(it.guards, it.items):
            if _b.bool(g):          # first element whose guard holds (forks on symbolic guards)
                return v
        if default is _MISSING:
            raise StopIteration
        return default
    if default is _MISSING:
        return _b.next(it)
    return _b.next(it, default)


INJECTED = {
    "isinstance": g_isinstance,
    "next": g_next,
    "min": symnp.py_min,
    "max": symnp.py_max,
    "filter": g_filter,
    "map": g_map,
    "list": g_list,
    "sorted": g_sorted,
    "bool": sym_bool,
    "all": g_all,
    "any": g_any,
}


class Rewrite(ast.NodeTransformer):
    """R-not, R-comp, R-boolop, R-assert.  Names injected: vc_ (this module)."""

    def __init__(s, filename):
        s.hits = {"not": 0, "comp": 0, "boolop": 0, "assert": 0}
        s.filename = filename

    @staticmethod
    def _vc(attr):
        return ast.Attribute(ast.Name("vc_", ast.Load()), attr, ast.Load())

    @staticmethod
    def _thunk(expr):
        return ast.Lambda(ast.arguments(posonlyargs=[], args=[], kwonlyargs=[], kw_defaults=[], defaults=[]), expr)

    def visit_UnaryOp(s, node):
        s.generic_visit(node)
        if isinstance(node.op, ast.Not):
            s.hits["not"] += 1
            return ast.copy_location(ast.Call(s._vc("not_"), [node.operand], []), node)
        return node

    def visit_BoolOp(s, node):
        s.generic_visit(node)
        if _b.any(isinstance(n, (ast.NamedExpr, ast.Await, ast.Yield, ast.YieldFrom)) for v in node.values for n in ast.walk(v)):
            return node
        s.hits["boolop"] += 1
        fn = "or_" if isinstance(node.op, ast.Or) else "and_"
        return ast.copy_location(ast.Call(s._vc(fn), [s._thunk(v) for v in node.values], []), node)

    def visit_Assert(s, node):
        s.generic_visit(node)
        s.hits["assert"] += 1
        where = f"{s.filename}:{node.lineno}"
        args = [s._thunk(node.test), ast.Constant(where)]
        if node.msg is not None:
            args.append(s._thunk(node.msg))
        return ast.copy_location(ast.Expr(ast.Call(s._vc("assert_"), args, [])), node)

    def _comp(s, node, kind):
        s.generic_visit(node)
        if len(node.generators) != 1 or node.generators[0].is_async:
            return node
        g = node.generators[0]
        if not g.ifs:
            return node
        if not isinstance(g.target, ast.Name):
            return node
        if _b.any(isinstance(n, (ast.NamedExpr, ast.Await, ast.Yield, ast.YieldFrom)) for n in ast.walk(node)):
            return node
        s.hits["comp"] += 1
        arg = ast.arguments(posonlyargs=[], args=[ast.arg(g.target.id)], kwonlyargs=[], kw_defaults=[], defaults=[])
        elt = ast.Lambda(arg, node.elt)
        test = g.ifs[0] if len(g.ifs) == 1 else ast.Call(s._vc("and_"), [s._thunk(t) for t in g.ifs], [])
        cond = ast.Lambda(arg, test)
        return ast.copy_location(ast.Call(s._vc("comp"), [ast.Constant(kind), elt, g.iter, cond], []), node)

    def visit_ListComp(s, node):
        return s._comp(node, "list")

    def visit_GeneratorExp(s, node):
        return s._comp(node, "gen")
