"""SpecFS: an abstract file system with an effect trace, and the assumed JSON contract (A6).

File contract: `open(p, "w")` truncates p at once; between open and close the content of p is an arbitrary
prefix of what was written ("partial"); `close` completes it; `os.replace(a, b)` / `Path.replace` is atomic;
`json.loads(json.dumps(x)) == x` (documents are kept as Python objects, never as text)."""
from __future__ import annotations

import copy


class Doc:
    """Complete content of a file: the serialisation of `obj`."""

    def __init__(self, obj, kind="json"):
        self.obj = obj
        self.kind = kind

    def __repr__(self):
        return f"Doc({self.kind})"


class Partial:
    """Content of a file that is being written: some prefix of the serialisation of the pieces written so far."""

    def __init__(self, pieces):
        self.pieces = list(pieces)

    def __repr__(self):
        return f"Partial({len(self.pieces)} pieces)"


class Stale:
    """What an earlier, crashed run left behind in a file (e.g. a half-written temporary file): bytes of unknown
    content and unknown length - possibly LONGER than anything written later."""

    def __repr__(self):
        return "Stale"


class Overlay:
    """New pieces written from offset 0 over a body that was NOT truncated: the result is the new text followed by
    whatever of the old body extends beyond it - not a complete document unless the old body was empty."""

    def __init__(self, pieces, old):
        self.pieces, self.old = list(pieces), old

    def __repr__(self):
        return f"Overlay({len(self.pieces)} pieces over {self.old!r})"


ABSENT = None


class Inode:
    """A file body.  Directory entries (FS._entries) point to inodes, open handles keep their inode: a rename moves
    the entry, later writes through a still-open handle land in the renamed file."""

    def __init__(self, content):
        self.content = content


class _Files(dict):
    """path -> content view over the inode table (reads return the content, writes create/replace an inode)."""

    def __init__(self, fs):
        super().__init__()
        self.fs = fs


class FS:
    def __init__(self):
        self._entries = {}         # path string -> Inode
        self.dirs = set()
        self.trace = []            # (op, path, extra) ; after each effect a snapshot path -> content is kept
        self.snapshots = []
        self.points = 0            # file-system operations started so far
        self.interrupt_at = None   # raise KeyboardInterrupt right before operation number `interrupt_at`
        self.interrupt_mid_write = False

    def point(self, mid_write_hook=None):
        """Called at the start of every mutating file-system operation: an interruption delivered as an exception
        (Ctrl-C, SIGTERM handler, MemoryError) can arrive here; `finally` blocks and context managers then run."""
        k = self.points
        self.points += 1
        if self.interrupt_at is not None and k == self.interrupt_at:
            self.interrupt_at = None
            if mid_write_hook is not None and self.interrupt_mid_write:
                mid_write_hook()
            raise KeyboardInterrupt()

    # dictionary-like access to contents (path -> Doc | Partial)
    class _View:
        def __init__(self, fs):
            self.fs = fs

        def __contains__(self, p):
            return p in self.fs._entries

        def __getitem__(self, p):
            return self.fs._entries[p].content

        def __setitem__(self, p, content):
            self.fs._entries[p] = Inode(content)

        def get(self, p, default=None):
            e = self.fs._entries.get(p)
            return default if e is None else e.content

        def pop(self, p):
            return self.fs._entries.pop(p).content

        def __delitem__(self, p):
            del self.fs._entries[p]

        def __iter__(self):
            return iter(list(self.fs._entries))

        def clear(self):
            self.fs._entries.clear()

        def keys(self):
            return list(self.fs._entries)

    @property
    def files(self):
        return FS._View(self)

    def effect(self, op, path, extra=None):
        self.trace.append((op, path, extra))
        self.snapshots.append({p: i.content for p, i in self._entries.items()})

    def content(self, path):
        return self.files.get(str(path), ABSENT)

    def rename(self, src, dst):
        self._entries[dst] = self._entries.pop(src)


class Handle:
    def __init__(self, fs, path, mode, truncate=True, create=True, exclusive=False, append=False):
        self.fs, self.path, self.mode = fs, path, mode
        self.closed = False
        self.over = None
        if "x" in mode:
            mode = self.mode = mode.replace("x", "w")
            exclusive = True
        if "a" in mode:
            mode = self.mode = mode.replace("a", "w")
            truncate, append = False, True
        if "w" in mode:
            fs.point()
            if path not in fs._entries and getattr(fs, "stale_siblings", False) and path not in getattr(fs, "fresh_paths", ()):
                # adversarial history: an earlier, crashed run may have left ANY sibling file behind (a temporary file
                # half written, of unknown length)
                fs._entries[path] = Inode(Stale())
            if path in fs._entries:
                if exclusive:
                    raise FileExistsError(path)
                old = fs._entries[path].content
                if truncate or (isinstance(old, Partial) and not old.pieces):
                    fs._entries[path].content = Partial([])       # truncation of the existing file body
                else:
                    # writing from offset 0 (or appending) into a body that keeps its old bytes
                    self.over = ("append", old) if append else ("overlay", old)
                    fs._entries[path].content = Overlay([], old)
            else:
                if not create:
                    raise FileNotFoundError(path)
                fs._entries[path] = Inode(Partial([]))
            self.inode = fs._entries[path]
            fs.effect("open-truncate" if self.over is None else "open-keep", path)
        elif "r" in mode:
            if path not in fs._entries:
                raise FileNotFoundError(path)
            self.inode = fs._entries[path]
            fs.trace.append(("open-read", path, None))
        else:
            raise NotImplementedError(mode)

    def write(self, piece):
        mk = (lambda ps: Overlay(ps, self.over[1])) if self.over is not None else Partial

        def half():
            self.inode.content = mk(self.inode.content.pieces + [("prefix-of", piece)])
            self.fs.effect("write-partial", self.path)
        self.fs.point(half)
        cur = self.inode.content
        self.inode.content = mk(cur.pieces + [piece])
        self.fs.effect("write", self.path)
        return 1

    def read(self):
        return self.inode.content

    def flush(self):
        pass

    def close(self):
        if self.closed:
            return
        self.closed = True
        if "w" in self.mode:
            pieces = self.inode.content.pieces
            if self.over is not None:
                # the old bytes were kept: new text + the tail of the old body (or old body + new text) - never a document
                self.inode.content = Doc((self.over[0], tuple(pieces), self.over[1]), "corrupt")
            elif len(pieces) == 1 and isinstance(pieces[0], Doc):
                self.inode.content = pieces[0]
            else:
                self.inode.content = Doc(("concat", tuple(pieces)), "text")
            self.fs.effect("close", self.path)

    def __enter__(self):
        return self

    def __exit__(self, *a):
        self.close()
        return False


class SpecPath:
    def __init__(self, fs, path, exists_oracle=None):
        self.fs = fs
        self.p = str(path)
        self.exists_oracle = exists_oracle

    def __str__(self):
        return self.p

    __repr__ = __str__

    def __fspath__(self):
        return self.p

    def __truediv__(self, other):
        return SpecPath(self.fs, self.p.rstrip("/") + "/" + str(other))

    @property
    def name(self):
        return self.p.rsplit("/", 1)[-1]

    @property
    def parent(self):
        return SpecPath(self.fs, self.p.rsplit("/", 1)[0] if "/" in self.p else ".")

    @property
    def suffix(self):
        nm = self.name
        return "." + nm.rsplit(".", 1)[1] if "." in nm else ""

    def with_name(self, name):
        return SpecPath(self.fs, (self.p.rsplit("/", 1)[0] + "/" if "/" in self.p else "") + name)

    def with_suffix(self, suf):
        nm = self.name
        base = nm.rsplit(".", 1)[0] if "." in nm else nm
        return self.with_name(base + suf)

    def exists(self):
        self.fs.trace.append(("exists", self.p, None))
        return self.p in self.fs.files or self.p in self.fs.dirs

    def is_file(self):
        return self.p in self.fs.files

    def mkdir(self, parents=False, exist_ok=False):
        if self.p in self.fs.dirs and not exist_ok:
            raise FileExistsError(self.p)
        self.fs.dirs.add(self.p)
        self.fs.effect("mkdir", self.p)

    def open(self, mode="r", *a, **k):
        return Handle(self.fs, self.p, mode)

    def read_text(self, *a, **k):
        self.fs.trace.append(("read_text", self.p, None))
        if self.p not in self.fs.files:
            raise FileNotFoundError(self.p)
        return self.fs.files[self.p]

    def write_text(self, text, *a, **k):
        h = self.open("w")
        h.write(text)
        h.close()

    def replace(self, target):
        t = str(target)
        self.fs.point()
        self.fs.rename(self.p, t)
        self.fs.effect("replace", t, self.p)
        return SpecPath(self.fs, t)

    rename = replace

    def unlink(self, missing_ok=False):
        if self.p in self.fs.files:
            del self.fs.files[self.p]
            self.fs.effect("unlink", self.p)
        elif not missing_ok:
            raise FileNotFoundError(self.p)


class SpecOS:
    """The `os` functions a save routine may use."""

    def __init__(self, fs):
        self.fs = fs
        import os as _os
        self.path = _os.path
        self.sep = _os.sep
        self.PathLike = _os.PathLike

    def replace(self, src, dst):
        s, d = str(src), str(dst)
        self.fs.point()
        self.fs.rename(s, d)
        self.fs.effect("replace", d, s)

    rename = replace

    def fsync(self, fd):
        pass

    def fspath(self, p):
        return str(p)

    def remove(self, p):
        p = str(p)
        del self.fs.files[p]
        self.fs.effect("unlink", p)

    unlink = remove

    def getpid(self):
        return 4242

    # low-level descriptors: os.open(path, flags, mode) + os.fdopen(fd, "w") / os.write / os.close
    class _FD:
        def __init__(self, path, flags):
            self.path, self.flags, self.handle = path, flags, None

    def open(self, path, flags, mode=0o777, *a, **k):
        import os as _os
        p = str(path)
        acc = flags & (_os.O_WRONLY | _os.O_RDWR)
        fd = SpecOS._FD(p, flags)
        if acc:
            fd.handle = Handle(self.fs, p, "w", truncate=bool(flags & _os.O_TRUNC), create=bool(flags & _os.O_CREAT),
                               exclusive=bool(flags & _os.O_EXCL), append=bool(flags & _os.O_APPEND))
        else:
            if p not in self.fs._entries:
                raise FileNotFoundError(p)
        return fd

    def fdopen(self, fd, mode="r", *a, **k):
        if isinstance(fd, SpecOS._FD):
            if fd.handle is not None:
                return fd.handle
            return Handle(self.fs, fd.path, "r")
        raise NotImplementedError("os.fdopen of a descriptor that os.open did not return")

    def write(self, fd, data):
        fd.handle.write(data)
        return len(data) if hasattr(data, "__len__") else 1

    def close(self, fd):
        if isinstance(fd, SpecOS._FD) and fd.handle is not None:
            fd.handle.close()

    def __getattr__(self, name):
        import os as _os
        if name.startswith("O_") or name in ("SEEK_SET", "SEEK_END", "SEEK_CUR", "linesep", "name", "curdir", "pardir", "extsep", "devnull"):
            return getattr(_os, name)
        raise NotImplementedError(f"os.{name} is outside the file-system contract")


class SpecTempfile:
    """`tempfile` over SpecFS.  Without dir= the file lives in the SYSTEM temporary directory - a different directory
    and, for all the code can know, a different file system than the results file."""
    SYS = "/systmp"

    def __init__(self, fs):
        self.fs = fs
        self.n = 0
        self.tempdir = None

    def gettempdir(self):
        return self.SYS

    def _name(self, prefix, suffix, dir):
        self.n += 1
        d = str(dir) if dir is not None else self.SYS
        return d.rstrip("/") + "/" + (prefix if prefix is not None else "tmp") + f"{self.n:06d}" + (suffix or "")

    def NamedTemporaryFile(self, mode="w+b", buffering=-1, encoding=None, newline=None, suffix=None, prefix=None, dir=None,
                           delete=True, **k):
        p = self._name(prefix, suffix, dir)
        fs = self.fs
        fresh = getattr(fs, "fresh_paths", ())
        fs.fresh_paths = tuple(fresh) + (p,)            # O_EXCL: a temporary file is always a new file
        h = Handle(fs, p, "w")
        h.name = p
        if delete:
            orig_close = h.close

            def close():
                was = h.closed
                orig_close()
                if not was and p in fs._entries:
                    del fs.files[p]
                    fs.effect("unlink", p)
            h.close = close
            h.__exit__ = lambda *a: (close(), False)[1]
        return h

    def mkstemp(self, suffix=None, prefix=None, dir=None, text=False):
        p = self._name(prefix, suffix, dir)
        fs = self.fs
        fs.fresh_paths = tuple(getattr(fs, "fresh_paths", ())) + (p,)
        fd = SpecOS._FD(p, 0)
        fd.handle = Handle(fs, p, "w")
        return fd, p

    def __getattr__(self, name):
        raise NotImplementedError(f"tempfile.{name} is outside the file-system contract")


class SpecShutil:
    """`shutil` over SpecFS.  move(src, dst) is an atomic rename only inside one file system; the contract grants that
    only when both names are in the same directory.  Otherwise it is what shutil does across file systems: dst is
    opened for writing (truncated), the bytes are copied, src is removed."""

    def __init__(self, fs):
        self.fs = fs

    @staticmethod
    def _dir(p):
        return p.rsplit("/", 1)[0] if "/" in p else "."

    def _copy(self, s, d):
        if s not in self.fs._entries:
            raise FileNotFoundError(s)
        content = self.fs._entries[s].content
        h = Handle(self.fs, d, "w")
        h.write(content if isinstance(content, Doc) else Doc(("copy-of", repr(content)), "corrupt"))
        h.close()
        return d

    def move(self, src, dst, *a, **k):
        s, d = str(src), str(dst)
        if self._dir(s) == self._dir(d):
            self.fs.point()
            self.fs.rename(s, d)
            self.fs.effect("replace", d, s)
            return d
        self._copy(s, d)
        del self.fs.files[s]
        self.fs.effect("unlink", s)
        return d

    def copyfile(self, src, dst, *a, **k):
        return self._copy(str(src), str(dst))

    copy = copy2 = copyfile

    def __getattr__(self, name):
        raise NotImplementedError(f"shutil.{name} is outside the file-system contract")


class SymDict(dict):
    """The mapping stored in an existing results file: arbitrary content.  Membership of the one name that a
    save asks about is decided by an oracle (symbolic: a fork); writes are recorded."""

    def __init__(self, oracle, label="D", other_keys=()):
        super().__init__()
        self.oracle = oracle
        self.label = label
        self.added = {}
        self.asked = []
        # names of earlier runs that are certainly in the mapping: all DIFFERENT from the name being saved
        # (chosen adversarially: same stem, same prefix, different case, trailing blank, ...)
        self.other_keys = list(other_keys)
        self.name = None

    def keys(self):
        return self

    def __iter__(self):
        # iterating the stored names: the certain other names, the name itself iff the oracle says so, then additions
        ks = list(self.other_keys)
        if self.name is not None and self.name not in self.added and bool(self.oracle(self.name)):
            ks.append(self.name)
        return iter(ks + [k for k in self.added if k not in ks])

    def __len__(self):
        return len(list(iter(self)))

    def __contains__(self, k):
        if k in self.added or k in self.other_keys:
            return True
        self.asked.append(k)
        return bool(self.oracle(k))

    def update(self, other=(), **kw):
        items = dict(other, **kw)
        for k, v in items.items():
            self[k] = v

    def __setitem__(self, k, v):
        if k not in self.added and (k in self.asked and self.oracle(k)):
            self.overwritten = getattr(self, "overwritten", []) + [k]
        self.added[k] = v

    def __getitem__(self, k):
        if k in self.added:
            return self.added[k]
        raise KeyError(k)

    def __delitem__(self, k):
        self.deleted = getattr(self, "deleted", []) + [k]

    def pop(self, k, *d):
        self.deleted = getattr(self, "deleted", []) + [k]
        return d[0] if d else None

    def clear(self):
        self.deleted = getattr(self, "deleted", []) + ["*"]

    def copy(self):
        return self

    def items(self):
        return [(k, self.added.get(k, ("earlier-entry", k))) for k in self]

    def values(self):
        return [v for _, v in self.items()]

    def get(self, k, default=None):
        return self.added.get(k, default)


class SpecJSON:
    """json with the contract loads(dumps(x)) == x: documents stay Python objects."""

    def __init__(self):
        self.dumps_calls = []
        import json as _json
        self.JSONDecodeError = _json.JSONDecodeError

    def loads(self, content, **kw):
        if isinstance(content, Doc) and content.kind == "json":
            return content.obj
        if isinstance(content, Partial) or content is None:
            raise self.JSONDecodeError("truncated document", "", 0)
        raise NotImplementedError("loads of non-json content")

    def load(self, f, **kw):
        return self.loads(f.read())

    def dumps(self, obj, default=None, **kw):
        self.dumps_calls.append(default)
        return Doc(obj, "json")

    def dump(self, obj, f, default=None, **kw):
        # the real json.dump writes the document in many chunks: any prefix may be on disk until close
        f.write(Doc(obj, "json"))
