"""Contract stubs: `random.Random` (support only) and `multiprocessing.Pool` (assumed starmap contract, A6)."""
from __future__ import annotations

import copy
import types

from . import rng


def random_stub():
    import random as _r
    m = types.ModuleType("random")

    class Random:
        """random.Random: choice returns SOME element of the sequence (every outcome explored by forking)."""

        def __init__(self, seed=None):
            self.seed_value = seed

        def choice(self, seq):
            seq = list(seq)
            if not seq:
                raise IndexError("Cannot choose from an empty sequence")
            return seq[rng.choose(len(seq), "random.choice")]

    m.Random = Random
    for k in ("randint", "random", "seed"):
        setattr(m, k, getattr(_r, k))
    return m


class SpecPool:
    """multiprocessing.Pool under the assumed contract: starmap(f, it) == [f(*deepcopy(a)) for a in it], in input
    order, every task on a private deep copy of its arguments, for every process count and chunking."""

    calls = []

    def __init__(self, processes=None, *a, **k):
        self.processes = processes

    def __enter__(self):
        return self

    def __exit__(self, *a):
        return False

    def starmap(self, f, it, chunksize=None):
        out = []
        for args in it:
            SpecPool.calls.append((getattr(f, "__name__", "?"), self.processes))
            out.append(f(*copy.deepcopy(tuple(args))))
        return out

    def map(self, f, it, chunksize=None):
        return [f(copy.deepcopy(a)) for a in it]

    def close(self):
        pass

    def join(self):
        pass


def multiprocessing_stub():
    m = types.ModuleType("multiprocessing")
    m.Pool = SpecPool
    m.set_start_method = lambda *a, **k: None
    m.cpu_count = lambda: 16
    return m
