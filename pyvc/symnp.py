"""pyvc numpy model.

Every array created through this module is a view of `VArr(np.ndarray)`; arrays that
hold data (float dtypes, anything an SV/SB is written into) have dtype=object with
SV/SB cells.  Shape, slicing, views, fancy indexing, broadcasting and in-place operators
are real numpy; the functions below are the re-implemented part (the model proper).
Unknown attributes fall through to real numpy.
"""
from __future__ import annotations

import builtins as _b
from fractions import Fraction

import numpy as _np
import z3

from .core import CTX, SB, SV, Undecided, Unsupported, guard_now, ite

_real_np = _np
newaxis = None
inf = _np.inf
pi = _np.pi
nan = _np.nan
bool_ = _np.bool_
int32 = _np.int32
int64 = _np.int64
integer = _np.integer
ndarray = _np.ndarray
dtype = _np.dtype
generic = _np.generic


class _FloatMeta(type):
    def __instancecheck__(cls, inst):
        return isinstance(inst, (SV, float, _np.floating))


class float64(metaclass=_FloatMeta):
    """Stand-in for np.float64: a dtype marker, and a constructor returning an exact/symbolic scalar."""

    def __new__(cls, x=0.0):
        if isinstance(x, _np.ndarray):
            return array(x, dtype=float64)
        return SV.lift(x)


class float32(float64):
    pass


float_ = float64
floating = float64

_FLOATS = (float, float64, float32, _np.float64, _np.float32, _np.dtype("float64"), _np.dtype("float32"),
           "float", "float64", "float32", "d", "f")

_cnt = [0]


def _ndt(dt):
    """Map injected stand-ins (bool, ...) back to the native dtype."""
    return getattr(dt, "_vc_native", dt)


def _isfloat_dt(dt):
    dt = _ndt(dt)
    if dt is None:
        return False
    try:
        return dt in _FLOATS
    except TypeError:
        return False


def fresh(prefix="t"):
    _cnt[0] += 1
    return SV(t=z3.Real(f"{prefix}!{_cnt[0]}"))


def fresh_bool(prefix="b"):
    _cnt[0] += 1
    return SB(t=z3.Bool(f"{prefix}!{_cnt[0]}"))


def _lift(v):
    if isinstance(v, (SV, SB)):
        return v
    if isinstance(v, (bool, _np.bool_)):
        return SB(c=bool(v))
    if v is None:
        return fresh("nan")       # None written into a float array is NaN: poison
    if isinstance(v, float) and v != v:
        return fresh("nan")
    return SV.lift(v)


_vlift = _np.frompyfunc(_lift, 1, 1)


def _W(a):
    if isinstance(a, _np.ndarray) and not isinstance(a, VArr):
        return a.view(VArr)
    return a


def _obj(a):
    """Object-dtype plain ndarray with SV/SB cells for any array-like."""
    if isinstance(a, _np.ndarray):
        b = _np.asarray(a)
        if b.dtype == object:
            return b
        r = _vlift(b)
        if not isinstance(r, _np.ndarray):      # 0-d
            o = _np.empty((), dtype=object)
            o[()] = r
            return o
        return r
    if isinstance(a, (list, tuple, range)):
        items = list(a)
        out = _np.empty(len(items), dtype=object)
        nested = _b.any(isinstance(x, (list, tuple, _np.ndarray)) for x in items)
        if nested:
            rows = [_obj(x) for x in items]
            return _np.stack(rows) if rows else out
        for i, x in enumerate(items):
            out[i] = _lift(x)
        return out
    o = _np.empty((), dtype=object)
    o[()] = _lift(a)
    return o


def _is_obj(a):
    return isinstance(a, _np.ndarray) and a.dtype == object


def _norm(a):
    """Collapse an all-concrete SB array to a native bool array."""
    if _is_obj(a) and a.size and _b.all(isinstance(x, SB) and x.c is not None for x in a.flat):
        return _np.array([x.c for x in a.flat], dtype=bool).reshape(a.shape).view(VArr)
    if isinstance(a, SB) and a.c is not None:
        return a.c
    return a


def _is_symmask(k):
    return _is_obj(k) and k.size and isinstance(k.flat[0], SB)


def _floatify(a):
    """Any native float array becomes an object array of exact scalars."""
    if isinstance(a, _np.ndarray) and a.dtype.kind == "f":
        return _W(_obj(a))
    return _W(a)


class VArr(_np.ndarray):
    def __array_finalize__(self, obj):
        pass

    # -- indexing ---------------------------------------------------------------------
    def __getitem__(self, key):
        if isinstance(key, GA):
            return GA(_np.ndarray.__getitem__(self, _np.asarray(key.vals)), key.guards)
        if isinstance(key, tuple) and key and isinstance(key[0], GA) and not _b.any(isinstance(k, GA) or _is_symmask(k) for k in key[1:]):
            # rows selected by a guarded selection, the other axes indexed natively (a[sel, column])
            rest = tuple(int(k) if isinstance(k, SV) else k for k in key[1:])
            r = _np.ndarray.__getitem__(self, (_np.asarray(key[0].vals),) + rest)
            if r.ndim != 1:
                raise Unsupported("guarded row selection that does not give a 1-d result")
            return GA(r, key[0].guards)
        if isinstance(key, _np.ndarray) and key.dtype == object and key.size == 0:
            key = _np.zeros(key.shape, dtype=bool)      # an empty mask / index list of exact cells selects nothing
        if _is_symmask(key):
            key = _norm(key)
            if key.dtype == object:
                if self.ndim != 1 or key.shape != self.shape:
                    raise Unsupported("symbolic mask on a non 1-d array")
                return GA(self, [SB.lift(x) for x in key.flat])
        if isinstance(key, tuple) and _b.any(isinstance(k, (SV,)) for k in key):
            key = tuple(int(k) if isinstance(k, SV) else k for k in key)
        elif isinstance(key, SV):
            key = int(key)
        r = _np.ndarray.__getitem__(self, key)
        return r

    def __setitem__(self, key, value):
        CTX.tick()
        if isinstance(key, GA) or _is_symmask(key) or (isinstance(key, tuple) and _b.any(isinstance(k, GA) or _is_symmask(k) for k in key)):
            return self._store_selected(key, value)
        if isinstance(key, tuple) and _b.any(isinstance(k, SV) for k in key):
            key = tuple(int(k) if isinstance(k, SV) else k for k in key)
        elif isinstance(key, SV):
            key = int(key)
        if self.dtype == object:
            if isinstance(value, GA):
                raise Unsupported("store of a guarded selection")
            if isinstance(value, _np.ndarray):
                value = _obj(value)
            elif isinstance(value, (list, tuple, range)):
                value = _obj(value)
            else:
                value = _lift(value)
            g = guard_now()
            if g.c is None:
                old = _np.ndarray.__getitem__(self, key)
                if isinstance(old, _np.ndarray):
                    value = _np.frompyfunc(lambda n, o: ite(g, n, o), 2, 1)(value, _np.asarray(old))
                else:
                    value = ite(g, value, old)
        else:
            if isinstance(value, (SV, SB)):
                if value.c is None:
                    raise Unsupported(f"symbolic value stored into a native {self.dtype} array")
                value = value.c if isinstance(value, SB) else (int(value.c) if value.c.denominator == 1 else float(value.c))
            if guard_now().c is None:
                raise Unsupported("store into a native array inside a guard context")
        _np.ndarray.__setitem__(self, key, value)

    def round(self, decimals=0, out=None):
        return round(self, decimals, out)

    def _store_selected(self, key, value):
        """a[sel] = v and a[sel, k] = v where sel is a guarded selection of row indices or a symbolic 1-d mask:
        candidate i is written iff its guard holds (in order, so a repeated index keeps the last write, as numpy does)."""
        rest = ()
        if isinstance(key, tuple):
            key, rest = key[0], tuple(int(k) if isinstance(k, SV) else k for k in key[1:])
            if _b.any(isinstance(k, GA) or _is_symmask(k) or isinstance(k, (slice, _np.ndarray, list)) for k in rest):
                raise Unsupported("store through a symbolic selection combined with a non-scalar index")
        if self.dtype != object:
            raise Unsupported("store through a symbolic selection into a native array")
        if not isinstance(key, GA) and not rest and _np.asarray(key).shape == self.shape and self.ndim > 1:
            # a[mask] = scalar with an n-d symbolic mask of a's own shape: cell by cell
            if isinstance(value, (GA, list, tuple)) or (isinstance(value, _np.ndarray) and value.ndim > 0):
                raise Unsupported("store of an array through an n-d symbolic mask")
            v = _lift(value[()] if isinstance(value, _np.ndarray) else value)
            gnow = guard_now()
            for idx in _np.ndindex(*self.shape):
                g = SB.lift(_np.ndarray.__getitem__(_np.asarray(key), idx)) & gnow
                if g.c is False:
                    continue
                _np.ndarray.__setitem__(self, idx, ite(g, v, _np.ndarray.__getitem__(self, idx)))
            return
        if isinstance(key, GA):
            rows = [int(x) for x in _np.asarray(key.vals).flat]
            guards = key.guards
        else:
            m = _norm(key)
            if m.ndim != 1 or m.shape[0] != self.shape[0]:
                raise Unsupported("symbolic mask store on a non 1-d selection")
            rows = list(range(m.shape[0]))
            guards = [SB.lift(x) for x in _np.asarray(m).flat]
        if isinstance(value, GA):
            if not GA(rows, guards)._same_guards(value):
                raise Unsupported("store of a guarded selection through a different selection")
            vals = [_lift(x) for x in _np.asarray(value.vals).flat]
        elif isinstance(value, (_np.ndarray, list, tuple)) and _np.ndim(value) > 0:
            raise Unsupported("store of an array through a symbolic selection (its length would be symbolic)")
        else:
            vals = [_lift(value[()] if isinstance(value, _np.ndarray) else value)] * len(rows)
        gnow = guard_now()
        for r, g, v in zip(rows, guards, vals):
            g = g & gnow
            if g.c is False:
                continue
            k = (r,) + rest
            old = _np.ndarray.__getitem__(self, k)
            if isinstance(old, _np.ndarray):
                raise Unsupported("store through a symbolic selection into sub-arrays")
            _np.ndarray.__setitem__(self, k, ite(g, v, old))

    def fill(self, v):
        CTX.tick()
        g = guard_now()
        if g.c is None:
            if self.dtype != object:
                raise Unsupported("fill of a native array inside a guard context")
            nv = _lift(v)
            flat = _np.asarray(self).reshape(-1) if self.flags.c_contiguous else None
            if flat is None:
                raise Unsupported("fill of a non-contiguous array inside a guard context")
            for i in range(flat.size):
                flat[i] = ite(g, nv, flat[i])
            return
        _np.ndarray.fill(self, _lift(v) if self.dtype == object else v)

    def astype(self, dt, *a, **k):
        dt = _ndt(dt)
        if _isfloat_dt(dt):
            return _W(_obj(self).copy())
        if dt in (bool, _np.bool_) and self.dtype == object:
            return _norm(_np.frompyfunc(lambda x: SB.lift(x), 1, 1)(_np.asarray(self)).view(VArr))
        if self.dtype == object and dt in (int, _np.int32, _np.int64):
            return _W(_np.array([int(x) for x in self.flat], dtype=dt).reshape(self.shape))
        return _W(_np.asarray(self).astype(dt, *a, **k))

    def copy(self, *a, **k):
        return _W(_np.array(_np.asarray(self), copy=True))

    def tolist(self):
        return _np.asarray(self).tolist()

    # -- comparisons ------------------------------------------------------------------
    def _cmp(self, o, uf):
        if isinstance(o, GA):
            return NotImplemented
        if self.dtype != object and not _is_obj(o) and not isinstance(o, (SV, SB)):
            if isinstance(o, (list, tuple)) and _b.any(isinstance(x, (SV, SB)) for x in o):
                pass
            else:
                return uf(_np.asarray(self), _np.asarray(o) if isinstance(o, _np.ndarray) else o).view(VArr)
        a = _obj(self)
        if isinstance(o, (_np.ndarray, list, tuple)):
            o = _obj(o)
        else:
            o = _lift(o)
        r = uf(a, o, dtype=object)
        if not isinstance(r, _np.ndarray):
            return _norm(r)
        return _norm(r.view(VArr))

    def __eq__(s, o):
        return s._cmp(o, _np.equal)

    def __ne__(s, o):
        return s._cmp(o, _np.not_equal)

    def __lt__(s, o):
        return s._cmp(o, _np.less)

    def __le__(s, o):
        return s._cmp(o, _np.less_equal)

    def __gt__(s, o):
        return s._cmp(o, _np.greater)

    def __ge__(s, o):
        return s._cmp(o, _np.greater_equal)

    __hash__ = None

    def __bool__(self):
        if self.dtype == object and self.size == 1:
            return bool(self.flat[0])
        return _np.ndarray.__bool__(_np.asarray(self))

    def __array_ufunc__(self, ufunc, method, *inputs, **kw):
        if _b.any(isinstance(i, GA) for i in inputs):
            return NotImplemented
        sym = _b.any(_is_obj(i) for i in inputs) or _b.any(isinstance(i, (SV, SB)) for i in inputs)
        if not sym and ufunc in (_np.true_divide, _np.divide, _np.sqrt, _np.exp, _np.log):
            sym = True     # anything that produces floats is done exactly
        if not sym and _b.any(isinstance(i, _np.ndarray) and i.dtype.kind == "f" for i in inputs):
            sym = True
        outs = kw.get("out")
        if outs is not None:
            CTX.tick()
            if _b.any(_is_obj(o) for o in outs):
                sym = True
            g = guard_now()
            if g.c is None:
                if not sym or len(outs) != 1 or method != "__call__":
                    raise Unsupported("in-place array operation inside a guard context")
                kw2 = {k: v for k, v in kw.items() if k != "out"}
                r = self.__array_ufunc__(ufunc, method, *inputs, **kw2)
                dst = _np.asarray(outs[0])
                rr = _np.broadcast_to(_obj(r), dst.shape)
                for idx in _np.ndindex(*dst.shape):
                    dst[idx] = ite(g, rr[idx], dst[idx])
                return _W(outs[0])
            kw["out"] = tuple(_np.asarray(o) if isinstance(o, VArr) else o for o in outs)
        if sym:
            if ufunc is _np.sqrt or ufunc is _np.exp or ufunc is _np.log:
                raise Unsupported(f"{ufunc.__name__} of exact data")
            ins = []
            for i in inputs:
                if isinstance(i, _np.ndarray):
                    ins.append(_obj(i))
                elif isinstance(i, (list, tuple)):
                    ins.append(_obj(i))
                else:
                    ins.append(_lift(i))
            if ufunc in (_np.logical_not, _np.invert) and method == "__call__":
                r = _np.frompyfunc(lambda x: ~SB.lift(x) if isinstance(x, SB) or ufunc is _np.logical_not else ~x, 1, 1)(ins[0])
            elif ufunc is _np.logical_or and method == "__call__":
                r = _np.frompyfunc(lambda x, y: SB.lift(x) | SB.lift(y), 2, 1)(*ins)
            elif ufunc is _np.logical_and and method == "__call__":
                r = _np.frompyfunc(lambda x, y: SB.lift(x) & SB.lift(y), 2, 1)(*ins)
            elif ufunc is _np.absolute and method == "__call__":
                r = _np.frompyfunc(abs, 1, 1)(ins[0])
            elif ufunc is _np.maximum and method == "__call__":
                r = _np.frompyfunc(lambda x, y: py_max(x, y), 2, 1)(*ins)
            elif ufunc is _np.minimum and method == "__call__":
                r = _np.frompyfunc(lambda x, y: py_min(x, y), 2, 1)(*ins)
            else:
                kw.setdefault("dtype", object)
                r = getattr(ufunc, method)(*ins, **kw)
                if "out" in kw and kw["out"] is not None:
                    return _W(r)
            if "out" in kw and kw["out"] is not None:
                _np.copyto(kw["out"][0], r)
                return _W(kw["out"][0])
        else:
            ins = [_np.asarray(i) if isinstance(i, VArr) else i for i in inputs]
            r = getattr(ufunc, method)(*ins, **kw)
        if isinstance(r, tuple):
            return tuple(_norm(_W(x)) for x in r)
        return _norm(_W(r))

    # -- reductions as methods ---------------------------------------------------------
    def sum(self, *a, **k):
        return sum_(self, *a, **k)

    def max(self, *a, **k):
        return max(self, *a, **k)

    def min(self, *a, **k):
        return min(self, *a, **k)

    def mean(self, *a, **k):
        return mean(self, *a, **k)

    def all(self, *a, **k):
        return all(self, *a, **k)

    def any(self, *a, **k):
        return any(self, *a, **k)


class GA:
    """Guarded 1-d selection: element i is present iff guards[i]."""

    def __init__(self, vals, guards):
        self.vals = _W(_np.asarray(vals))
        self.guards = list(guards)
        if len(self.vals) != len(self.guards):
            raise Unsupported("guarded selection with mismatching guards")

    def __iter__(self):
        for g, v in zip(self.guards, self.vals):
            if g.c is False:
                continue
            CTX.tick()
            CTX.guards.append(g)
            try:
                yield v
            except GeneratorExit:
                if guard_now().c is None:
                    CTX.early_close = CTX.guard_terms()
                raise
            finally:
                CTX.guards.pop()

    def _same_guards(self, o):
        if len(o.guards) != len(self.guards):
            return False
        for a, b in zip(o.guards, self.guards):
            if a is b:
                continue
            if a.c is not None or b.c is not None:
                if a.c != b.c:
                    return False
            elif not a.t.eq(b.t):
                return False
        return True

    def _bin(self, o, f):
        if isinstance(o, GA):
            if not self._same_guards(o):
                raise Unsupported("combining guarded selections with different guards")
            return GA(f(self.vals, o.vals), self.guards)
        return GA(f(self.vals, o), self.guards)

    def __xor__(s, o):
        return s._bin(o, lambda a, b: a ^ b)

    def __rxor__(s, o):
        return s._bin(o, lambda a, b: b ^ a)

    def __or__(s, o):
        return s._bin(o, lambda a, b: a | b)

    __ror__ = __or__

    def __and__(s, o):
        return s._bin(o, lambda a, b: a & b)

    __rand__ = __and__

    def __add__(s, o):
        return s._bin(o, lambda a, b: a + b)

    __radd__ = __add__

    def __sub__(s, o):
        return s._bin(o, lambda a, b: a - b)

    def __rsub__(s, o):
        return s._bin(o, lambda a, b: b - a)

    def __mul__(s, o):
        return s._bin(o, lambda a, b: a * b)

    __rmul__ = __mul__

    def __neg__(s):
        return GA(-s.vals, s.guards)

    def __eq__(s, o):
        return s._bin(o, lambda a, b: a == b)

    def __ne__(s, o):
        return s._bin(o, lambda a, b: a != b)

    def __lt__(s, o):
        return s._bin(o, lambda a, b: a < b)

    def __le__(s, o):
        return s._bin(o, lambda a, b: a <= b)

    def __gt__(s, o):
        return s._bin(o, lambda a, b: a > b)

    def __ge__(s, o):
        return s._bin(o, lambda a, b: a >= b)

    def __getitem__(s, key):
        if isinstance(key, (int, _np.integer)) and not isinstance(key, (bool, _np.bool_)):
            # the key-th present element: forks over which candidate that is
            if key < 0:
                raise Unsupported("negative index into a guarded selection")
            seen = 0
            for g, v in zip(s.guards, s.vals):
                if bool(g):
                    if seen == key:
                        return v
                    seen += 1
            raise IndexError("index out of bounds for the selection")
        if isinstance(key, GA):
            raise Unsupported("guarded selection indexed by a guarded selection")
        if _is_symmask(key):
            key = _norm(key)
            if key.dtype == object:
                return GA(s.vals, [g & SB.lift(k) for g, k in zip(s.guards, key.flat)])
        if isinstance(key, _np.ndarray) and key.dtype == bool:
            idx = _np.nonzero(_np.asarray(key))[0]
            return GA(_np.asarray(s.vals)[idx], [s.guards[i] for i in idx])
        raise Unsupported("indexing a guarded selection")

    def __len__(s):
        cnt = SV(c=Fraction(0))
        for g in s.guards:
            cnt = cnt + SV.lift(g)
        if cnt.c is not None:
            return int(cnt.c)
        raise Unsupported("len() of a guarded selection")

    def nonempty(s):
        r = SB(c=False)
        for g in s.guards:
            r = r | g
        return r

    def __bool__(s):
        return bool(s.nonempty())

    @property
    def shape(s):
        raise Unsupported("shape of a guarded selection")

    @property
    def size(s):
        """Number of selected elements: exact when every guard is decided, a symbolic count otherwise."""
        cnt = SV(c=Fraction(0))
        for g in s.guards:
            cnt = cnt + SV.lift(g)
        return int(cnt.c) if cnt.c is not None else cnt

    __hash__ = None


# -- constructors --------------------------------------------------------------------------

def zeros(shape, dtype=float, **kw):
    dtype = _ndt(dtype)
    if _isfloat_dt(dtype):
        a = _np.empty(shape, dtype=object).view(VArr)
        _np.ndarray.fill(a, SV(c=Fraction(0)))
        return a
    return _np.zeros(shape, dtype, **kw).view(VArr)


def ones(shape, dtype=float, **kw):
    dtype = _ndt(dtype)
    if _isfloat_dt(dtype):
        a = _np.empty(shape, dtype=object).view(VArr)
        _np.ndarray.fill(a, SV(c=Fraction(1)))
        return a
    return _np.ones(shape, dtype, **kw).view(VArr)


def full(shape, fill_value, dtype=None, **kw):
    dtype = _ndt(dtype)
    if dtype is None or _isfloat_dt(dtype) or isinstance(fill_value, (SV, SB)):
        if dtype is None and isinstance(fill_value, (int, _np.integer)) and not isinstance(fill_value, bool):
            return _np.full(shape, fill_value, **kw).view(VArr)
        a = _np.empty(shape, dtype=object).view(VArr)
        _np.ndarray.fill(a, _lift(fill_value))
        return a
    return _np.full(shape, fill_value, dtype, **kw).view(VArr)


def empty(shape, dtype=float, **kw):
    dtype = _ndt(dtype)
    return zeros(shape, dtype, **kw)


def zeros_like(a, dtype=None, **kw):
    if dtype is None and isinstance(a, _np.ndarray) and (a.dtype == object or a.dtype.kind == "f"):
        return zeros(a.shape, float)
    return _W(_np.zeros_like(_np.asarray(a), dtype=dtype, **kw))


def arange(*a, **k):
    a = tuple(int(x) if isinstance(x, SV) else x for x in a)
    return _floatify(_np.arange(*a, **k))


def _has_sym(seq):
    for x in seq:
        if isinstance(x, (SV, SB)):
            return True
        if isinstance(x, _np.ndarray) and x.dtype == object:
            return True
        if isinstance(x, (list, tuple)) and _has_sym(x):
            return True
    return False


def array(obj, dtype=None, **kw):
    dtype = _ndt(dtype)
    if isinstance(obj, GA):
        raise Unsupported("np.array of a guarded selection")
    if isinstance(obj, (SV, SB)):
        return _W(_obj(obj))
    if isinstance(obj, _np.ndarray):
        if obj.dtype == object or _isfloat_dt(dtype):
            r = _obj(obj).copy() if kw.get("copy", True) else _obj(obj)
            return _W(r)
        return _floatify(_np.array(_np.asarray(obj), dtype=dtype, **kw))
    if isinstance(obj, (list, tuple)) and (_has_sym(obj) or _isfloat_dt(dtype)):
        return _W(_obj(obj))
    return _floatify(_np.array(obj, dtype=dtype, **kw))


def asarray(obj, dtype=None, **kw):
    if isinstance(obj, VArr) and dtype is None:
        return obj
    return array(obj, dtype=dtype)


def argsort(a, *r, **k):
    if _is_obj(a):
        cells = _cells(a)
        if _b.all(c.c is not None for c in cells):
            return _W(_np.argsort(_np.array([float(c.c) for c in cells]), *r, **k))
        raise Unsupported("argsort of symbolic data")
    return _W(_np.argsort(_np.asarray(a), *r, **k))


def fromiter(it, dtype=None, count=-1, **k):
    dtype = _ndt(dtype)
    from .guarded import GList
    if isinstance(it, GList):
        if _isfloat_dt(dtype):
            return GA(_obj(list(it.items)), it.guards)
        return GA(_np.fromiter(it.items, dtype), it.guards)
    if _isfloat_dt(dtype) or dtype is object:
        items = [x if dtype is object else _lift(x) for x in it]
        if count not in (-1, None) and len(items) < int(count):
            raise ValueError("iterator too short: Expected %d but iterator had only %d items." % (count, len(items)))
        if count not in (-1, None):
            items = items[:int(count)]
        out = _np.empty(len(items), dtype=object)
        for i, x in enumerate(items):
            out[i] = x
        return out.view(VArr)
    if dtype in (bool, _np.bool_):
        items = list(it)
        if count not in (-1, None):
            if len(items) < int(count):
                raise ValueError("iterator too short")
            items = items[:int(count)]
        if _b.any(isinstance(x, SB) and x.c is None for x in items):
            out = _np.empty(len(items), dtype=object)
            for i, x in enumerate(items):
                out[i] = SB.lift(x)
            return out.view(VArr)
        return _W(_np.array([_b.bool(x) for x in items], dtype=bool))
    if isinstance(count, SV):
        count = int(count)
    return _W(_np.fromiter(it, dtype, count, **k))


def copy(a, **kw):
    if isinstance(a, GA):
        raise Unsupported("copy of guarded selection")
    return _W(_np.array(_np.asarray(a), copy=True))


def size(a, axis=None):
    if isinstance(a, GA):
        return len(a)
    return _np.size(_np.asarray(a), axis)


def shape(a):
    return _np.shape(_np.asarray(a))


def _cells(a):
    return [SV.lift(x) if not isinstance(x, SB) else SV.lift(x) for x in _np.asarray(a).flat]


# -- reductions ----------------------------------------------------------------------------

def _red_cells(cells, guards, name, initial=None):
    """max/min over (guard, SV) pairs; `initial` as in numpy."""
    live = [(g, c) for g, c in zip(guards, cells) if g.c is not False]
    if initial is not None:
        live = [(SB(c=True), SV.lift(initial))] + live
    nonempty = SB(c=False)
    for g, _ in live:
        nonempty = nonempty | g
    if nonempty.c is False:
        raise ValueError(f"zero-size array to reduction operation {'maximum' if name == 'max' else 'minimum'} which has no identity")
    if nonempty.c is None:
        # numpy raises ValueError on an empty reduction: "never empty" is an obligation
        CTX.oblige("reduction.nonempty", nonempty, kind="np." + name)
        CTX.assume(nonempty)
    if _b.all(g.c is True and c.c is not None for g, c in live):
        return SV(c=(_b.max if name == "max" else _b.min)(c.c for _, c in live))
    m = None
    seen = None
    for g, c in live:
        if m is None:
            m = c.zr()
            seen = g.z()
            continue
        cz = c.zr()
        better = (cz > m) if name == "max" else (cz < m)
        if g.c is True and z3.is_true(seen):
            m = z3.If(better, cz, m)
        else:
            m = z3.If(z3.And(g.z(), z3.Or(z3.Not(seen), better)), cz, m)
            seen = z3.Or(seen, g.z())
    return SV(t=m)


def _red(a, name, axis=None, initial=None, **kw):
    if kw.get("out") is not None:
        raise Unsupported("reduction with out=")
    wh = kw.pop("where", None)
    if wh is not None and wh is not True:
        # max/min over the cells the mask selects (numpy requires `initial` then): a guarded reduction
        if axis is not None or isinstance(a, GA):
            raise Unsupported("reduction with where= along an axis")
        arr = _np.asarray(a if isinstance(a, _np.ndarray) else array(a))
        w = _np.broadcast_to(_np.asarray(wh), arr.shape)
        if initial is None:
            raise ValueError("reduction operation '%s' does not have an identity, so to use a where mask one has to specify 'initial'"
                             % ("maximum" if name == "max" else "minimum"))
        return _red_cells([SV.lift(c) for c in arr.flat], [SB.lift(g) for g in w.flat], name, initial)
    if isinstance(a, GA):
        return _red_cells(_cells(a.vals), a.guards, name, initial)
    if isinstance(a, (list, tuple)):
        a = array(a)
    if not _is_obj(a):
        k = {} if initial is None else {"initial": initial}
        return _floatify_scalar(getattr(_np, name)(_np.asarray(a), axis=axis, **k))
    if axis is not None and _np.asarray(a).ndim > 1:
        arr = _np.asarray(a)
        moved = _np.moveaxis(arr, axis, 0)
        out = _np.empty(moved.shape[1:], dtype=object)
        for idx in _np.ndindex(*moved.shape[1:]):
            col = [SV.lift(moved[(i,) + idx]) for i in range(moved.shape[0])]
            out[idx] = _red_cells(col, [SB(c=True)] * len(col), name, initial)
        return _W(out)
    cells = _cells(a)
    return _red_cells(cells, [SB(c=True)] * len(cells), name, initial)


def _floatify_scalar(x):
    if isinstance(x, (_np.floating, float)):
        return SV.lift(x)
    if isinstance(x, _np.ndarray):
        return _floatify(x)
    return x


def max(a, axis=None, **kw):
    return _red(a, "max", axis=axis, **kw)


def min(a, axis=None, **kw):
    return _red(a, "min", axis=axis, **kw)


amax = max
amin = min


def sum_(a, axis=None, **kw):
    if isinstance(a, GA):
        s = SV(c=Fraction(0))
        for g, c in zip(a.guards, _cells(a.vals)):
            s = s + ite(g, c, SV(c=Fraction(0)))
        return s
    if isinstance(a, (list, tuple)):
        a = array(a)
    if not _is_obj(a):
        return _floatify_scalar(_np.sum(_np.asarray(a), axis=axis, **kw))
    arr = _np.asarray(a)
    if axis is not None and arr.ndim > 1:
        moved = _np.moveaxis(arr, axis, 0)
        out = _np.empty(moved.shape[1:], dtype=object)
        for idx in _np.ndindex(*moved.shape[1:]):
            s = SV(c=Fraction(0))
            for i in range(moved.shape[0]):
                s = s + SV.lift(moved[(i,) + idx])
            out[idx] = s
        return _W(out)
    s = SV(c=Fraction(0))
    for c in _cells(arr):
        s = s + c
    return s


sum = sum_


def mean(a, axis=None, **kw):
    if isinstance(a, (list, tuple)):
        a = array(a)
    arr = _np.asarray(a)
    if not _is_obj(arr):
        return _floatify_scalar(_np.mean(arr, axis=axis, **kw))
    if axis is None or arr.ndim == 1:
        if arr.size == 0:
            raise Unsupported("mean of empty array")
        return sum_(a) / arr.size
    return sum_(a, axis=axis) / arr.shape[axis]


average = mean


def var(a, axis=None, ddof=0, **kw):
    """Population variance (numpy's default ddof=0): mean of squared deviations from the mean."""
    if isinstance(a, (list, tuple)):
        a = array(a)
    arr = _np.asarray(a)
    if not _is_obj(arr):
        return _floatify_scalar(_np.var(arr, axis=axis, ddof=ddof, **kw)) if axis is None else _floatify(_np.var(arr, axis=axis, ddof=ddof, **kw))
    if ddof != 0:
        raise Unsupported("variance with ddof != 0")
    if axis is None or arr.ndim == 1:
        m = mean(a)
        d = _W(arr) - m
        return sum_(d * d) / arr.size
    if arr.ndim != 2:
        raise Unsupported("variance along an axis of an n-d array")
    rows = arr if axis in (1, -1) else arr.T
    out = _np.empty(rows.shape[0], dtype=object)
    for i in range(rows.shape[0]):
        out[i] = var(_W(rows[i]))
    return _W(out)


def std(a, axis=None, ddof=0, **kw):
    v = var(a, axis=axis, ddof=ddof, **kw)
    if isinstance(v, _np.ndarray):
        out = _np.empty(v.shape, dtype=object)
        for i, x in enumerate(v.flat):
            out.flat[i] = sqrt(x)
        return _W(out)
    return sqrt(v)


def all(a, axis=None, **kw):
    if isinstance(a, GA):
        r = SB(c=True)
        for g, c in zip(a.guards, _np.asarray(a.vals).flat):
            r = r & ((~g) | SB.lift(c))
        return _norm(r)
    if isinstance(a, (SB, SV)):
        return _norm(SB.lift(a))
    if isinstance(a, (list, tuple)):
        if _has_sym(a):
            a = _obj(a)
        else:
            return _np.all(a, **kw)
    if not _is_obj(a):
        return _np.all(_np.asarray(a), axis=axis, **kw)
    r = SB(c=True)
    for c in _np.asarray(a).flat:
        r = r & SB.lift(c)
    return _norm(r)


def any(a, axis=None, **kw):
    if isinstance(a, GA):
        r = SB(c=False)
        for g, c in zip(a.guards, _np.asarray(a.vals).flat):
            r = r | (g & SB.lift(c))
        return _norm(r)
    if isinstance(a, (SB, SV)):
        return _norm(SB.lift(a))
    if isinstance(a, (list, tuple)):
        if _has_sym(a):
            a = _obj(a)
        else:
            return _np.any(a, **kw)
    if not _is_obj(a):
        return _np.any(_np.asarray(a), axis=axis, **kw)
    r = SB(c=False)
    for c in _np.asarray(a).flat:
        r = r | SB.lift(c)
    return _norm(r)


def logical_not(a):
    if isinstance(a, (SB, SV)):
        return ~SB.lift(a)
    if not _is_obj(a):
        return _W(_np.logical_not(_np.asarray(a)))
    return _norm(_np.frompyfunc(lambda x: ~SB.lift(x), 1, 1)(_np.asarray(a)).view(VArr))


def invert(a):
    if isinstance(a, SB):
        return ~a
    if _is_obj(a):
        return logical_not(a)
    return _W(_np.invert(_np.asarray(a)))


def logical_or(a, b):
    if not _b.any(_is_obj(x) or isinstance(x, (SB, SV)) for x in (a, b)):
        return _W(_np.logical_or(_np.asarray(a), _np.asarray(b)))
    return _norm(_W(_np.frompyfunc(lambda x, y: SB.lift(x) | SB.lift(y), 2, 1)(_obj(a), _obj(b))))


def logical_and(a, b):
    if not _b.any(_is_obj(x) or isinstance(x, (SB, SV)) for x in (a, b)):
        return _W(_np.logical_and(_np.asarray(a), _np.asarray(b)))
    return _norm(_W(_np.frompyfunc(lambda x, y: SB.lift(x) & SB.lift(y), 2, 1)(_obj(a), _obj(b))))


def isclose(a, b, rtol=1e-05, atol=1e-08, equal_nan=False):
    """|a - b| <= atol + rtol * |b| (numpy's definition, exact arithmetic)."""
    rt, at = SV.lift(rtol), SV.lift(atol)

    def one(x, y):
        x, y = SV.lift(x), SV.lift(y)
        return abs(x - y) <= at + rt * abs(y)

    if isinstance(a, GA) or isinstance(b, GA):
        ga = a if isinstance(a, GA) else b
        if isinstance(a, GA) and isinstance(b, GA) and not a._same_guards(b):
            raise Unsupported("isclose of guarded selections with different guards")
        av = _obj(a.vals) if isinstance(a, GA) else _obj(a)
        bv = _obj(b.vals) if isinstance(b, GA) else _obj(b)
        return GA(_np.frompyfunc(one, 2, 1)(av, bv), ga.guards)
    if not isinstance(a, _np.ndarray) and not isinstance(b, _np.ndarray):
        return _norm(one(a, b))
    return _norm(_W(_np.frompyfunc(one, 2, 1)(_obj(a), _obj(b))))


def isnan(a):
    if isinstance(a, SV):
        return False
    if _is_obj(a):
        return _W(_np.zeros(_np.asarray(a).shape, dtype=bool))
    return _W(_np.isnan(_np.asarray(a)))


def abs(a):
    if isinstance(a, (SV,)):
        return _b.abs(a)
    if _is_obj(a):
        return _W(_np.frompyfunc(_b.abs, 1, 1)(_np.asarray(a)))
    return _floatify_scalar(_np.abs(_np.asarray(a)))


absolute = abs


def place(arr, mask, vals):
    """np.place; vals=None/NaN is poison (a fresh unconstrained real)."""
    CTX.tick()
    gnow = guard_now()
    if not (vals is None or (isinstance(vals, float) and vals != vals)):
        raise Unsupported("np.place with values other than None/NaN")
    flat_mask = _np.asarray(mask).ravel()
    if arr.ndim != 1:
        raise Unsupported("np.place on a non 1-d array")
    for i, m in enumerate(flat_mask):
        m = SB.lift(m) & gnow          # inside a guard context the write happens only under the guard
        if m.c is False:
            continue
        _np.ndarray.__setitem__(arr, i, ite(m, fresh("nan"), _np.ndarray.__getitem__(arr, i)))


def copyto(dst, src, casting="same_kind", where=True):
    CTX.tick()
    gnow = guard_now()
    if gnow.c is None and not _is_obj(dst):
        raise Unsupported("np.copyto into a native array inside a guard context")
    if not _is_obj(dst):
        if _is_obj(src) or _is_obj(where):
            raise Unsupported("symbolic copyto into a native array")
        _np.copyto(_np.asarray(dst), _np.asarray(src), where=_np.asarray(where) if isinstance(where, _np.ndarray) else where)
        return
    d = _np.asarray(dst)
    s = _np.broadcast_to(_obj(src), d.shape)
    w = _np.broadcast_to(_np.asarray(where) if isinstance(where, _np.ndarray) else _np.array(where), d.shape)
    for idx in _np.ndindex(*d.shape):
        m = SB.lift(w[idx]) & gnow
        if m.c is False:
            continue
        d[idx] = ite(m, s[idx], d[idx])


def where(cond, x=None, y=None):
    if x is None and y is None:
        c = _norm(cond) if isinstance(cond, _np.ndarray) else cond
        if _is_obj(c):
            cells = list(_np.asarray(c).flat)
            if _b.all(isinstance(k, (SB, SV)) for k in cells):
                ks = [SB.lift(k) for k in cells]
                if _b.all(k.c is not None for k in ks):
                    return (_W(_np.nonzero(_np.array([k.c for k in ks]))[0]),)
                if _np.asarray(c).ndim != 1:
                    raise Unsupported("np.where on a symbolic n-d mask")
                return (GA(_np.arange(len(ks)), ks),)
        return tuple(_W(r) for r in _np.where(_np.asarray(c)))
    if _b.any(isinstance(v, GA) for v in (cond, x, y)):
        gas = [v for v in (cond, x, y) if isinstance(v, GA)]
        if not _b.all(gas[0]._same_guards(v) for v in gas[1:]):
            raise Unsupported("np.where over guarded selections with different guards")
        f = _np.frompyfunc(lambda c, a, b: ite(SB.lift(c), a, b), 3, 1)
        cells = [_obj(v.vals) if isinstance(v, GA) else _obj(v) for v in (cond, x, y)]
        return GA(f(*cells), gas[0].guards)
    if not _b.any(_is_obj(v) or isinstance(v, (SV, SB)) for v in (cond, x, y)):
        return _floatify(_np.where(_np.asarray(cond), x, y))
    f = _np.frompyfunc(lambda c, a, b: ite(SB.lift(c), a, b), 3, 1)
    return _W(f(_obj(cond) if isinstance(cond, (_np.ndarray, list)) else _lift(cond), _obj(x), _obj(y)))


def nonzero(a):
    return where(a)


def flatnonzero(a):
    if isinstance(a, _np.ndarray) and a.ndim == 1:
        return where(a)[0]
    return where(_W(_np.asarray(a).ravel()))[0]


def argmin(a, axis=None):
    if not _is_obj(a):
        return _np.argmin(_np.asarray(a), axis=axis)
    if axis is not None and _np.asarray(a).ndim > 1:
        raise Unsupported("argmin with axis")
    cells = _cells(a)
    if not cells:
        raise ValueError("attempt to get argmin of an empty sequence")
    m = _red_cells(cells, [SB(c=True)] * len(cells), "min")
    for i in range(len(cells) - 1):
        if bool(cells[i] == m):          # first minimum wins (numpy); forks linearly on symbolic data
            return i
    return len(cells) - 1


def argmax(a, axis=None):
    if not _is_obj(a):
        return _np.argmax(_np.asarray(a), axis=axis)
    cells = _cells(a)
    if not cells:
        raise ValueError("attempt to get argmax of an empty sequence")
    m = _red_cells(cells, [SB(c=True)] * len(cells), "max")
    for i in range(len(cells) - 1):
        if bool(cells[i] == m):
            return i
    return len(cells) - 1


def bincount(x, weights=None, minlength=0):
    xs = _np.asarray(x)
    if weights is None or not (_is_obj(weights) or isinstance(weights, GA)):
        if weights is not None and isinstance(weights, _np.ndarray) and weights.dtype == bool:
            weights = _np.asarray(weights).astype(float)
        r = _np.bincount(xs, weights=None if weights is None else _np.asarray(weights), minlength=minlength)
        return _floatify(r)
    n = _b.max(int(xs.max()) + 1 if xs.size else 0, minlength)
    out = zeros(n, float)
    w = _obj(weights)
    if len(w) != len(xs):
        raise ValueError("The weights and list don't have the same length.")
    for i, k in enumerate(xs):
        _np.ndarray.__setitem__(out, int(k), _np.ndarray.__getitem__(out, int(k)) + SV.lift(w[i]))
    return out


def vstack(tup, **kw):
    tup = list(tup)
    if _b.any(_is_obj(t) for t in tup) or _has_sym(tup):
        return _W(_np.vstack([_obj(t) for t in tup]))
    return _floatify(_np.vstack([_np.asarray(t) for t in tup]))


def hstack(tup, **kw):
    tup = list(tup)
    if _b.any(_is_obj(t) for t in tup) or _has_sym(tup):
        return _W(_np.hstack([_obj(t) for t in tup]))
    return _floatify(_np.hstack([_np.asarray(t) for t in tup]))


def stack(tup, axis=0, **kw):
    tup = list(tup)
    if _b.any(_is_obj(t) for t in tup) or _has_sym(tup):
        return _W(_np.stack([_obj(t) for t in tup], axis=axis))
    return _floatify(_np.stack([_np.asarray(t) for t in tup], axis=axis))


def concatenate(tup, axis=0, **kw):
    tup = list(tup)
    if _b.any(_is_obj(t) for t in tup) or _has_sym(tup):
        return _W(_np.concatenate([_obj(t) for t in tup], axis=axis))
    return _floatify(_np.concatenate([_np.asarray(t) for t in tup], axis=axis))


def reshape(a, shape, **kw):
    return _W(_np.reshape(_np.asarray(a), shape))


def roll(a, shift, axis=None):
    return _W(_np.roll(_np.asarray(a), shift, axis))


def apply_along_axis(func1d, axis, arr, *a, **k):
    arr = arr if isinstance(arr, _np.ndarray) else array(arr)
    if arr.ndim == 1:
        return func1d(arr, *a, **k)
    if arr.ndim != 2:
        raise Unsupported("apply_along_axis on an array with more than two axes")
    rows = arr if axis in (1, -1) else arr.T
    res = [func1d(_W(rows[i]), *a, **k) for i in range(rows.shape[0])]
    if _b.any(isinstance(r, _np.ndarray) for r in res):
        raise Unsupported("apply_along_axis with a vector-valued function")
    return array(res)


def reciprocal(x, **kw):
    return 1 / (x if isinstance(x, (SV, _np.ndarray)) else SV.lift(x))


def _round_scalar(x, decimals):
    """numpy's round-half-to-even at `decimals` decimals, in exact arithmetic (A1: numpy scales by 10**d in floats)."""
    x = SV.lift(x)
    scale = Fraction(10) ** int(decimals)
    if x.c is not None:
        return SV(c=Fraction(_b.round(x.c * scale)) / scale)        # Fraction.__round__ is half-to-even
    y = x.zr() * z3.RealVal(str(scale))
    fl = z3.ToInt(y)
    f = z3.ToReal(fl)
    frac = y - f
    half = z3.RealVal("1/2")
    r = z3.If(frac < half, f, z3.If(frac > half, f + 1, z3.If(fl % 2 == 0, f, f + 1)))
    return SV(t=r / z3.RealVal(str(scale)))


def round(a, decimals=0, out=None):          # noqa: A001  (numpy's name)
    if out is not None:
        raise Unsupported("np.round with out=")
    if isinstance(a, GA):
        return GA(round(a.vals, decimals), a.guards)
    if isinstance(a, (SV, int, float, Fraction, _np.generic)) and not isinstance(a, bool):
        if isinstance(a, (int, _np.integer)):
            return a
        return _round_scalar(a, decimals)
    arr = _np.asarray(a if isinstance(a, _np.ndarray) else array(a))
    if arr.dtype != object:
        if arr.dtype.kind in "iub":
            return _W(_np.round(arr, decimals))
        arr = _obj(arr)
    res = _np.empty(arr.shape, dtype=object)
    for idx in _np.ndindex(*arr.shape):
        res[idx] = _round_scalar(arr[idx], decimals)
    if res.ndim == 0:
        return res[()]
    return _W(res)


around = round_ = round


def unique(a, **kw):
    if _is_obj(a):
        cells = _cells(a)
        if not _b.all(isinstance(c, SV) and c.c is not None for c in cells):
            raise Unsupported("np.unique of symbolic data")
        r = _np.unique(_np.array([float(c.c) for c in cells]).reshape(_np.asarray(a).shape), **kw)
        return tuple(_floatify(x) for x in r) if isinstance(r, tuple) else _floatify(r)
    r = _np.unique(_np.asarray(a), **kw)
    return tuple(_W(x) for x in r) if isinstance(r, tuple) else _W(r)


def array_equal(a, b):
    a, b = _obj(a), _obj(b)
    if a.shape != b.shape:
        return False
    r = SB(c=True)
    for x, y in zip(a.flat, b.flat):
        r = r & SB.lift(x == y)
    return _norm(r)


def sqrt(x):
    if isinstance(x, SV):
        if x.c is not None:
            from math import isqrt
            num, den = x.c.numerator, x.c.denominator
            if num >= 0 and isqrt(num) ** 2 == num and isqrt(den) ** 2 == den:
                return SV(c=Fraction(isqrt(num), isqrt(den)))
        r = fresh("sqrt")
        CTX.assume(z3.And(r.t >= 0, r.t * r.t == x.zr()))
        CTX.oblige("sqrt.nonneg", x.zr() >= 0, kind="np.sqrt")
        return r
    raise Unsupported("np.sqrt of an array")


def save(file, arr, **kw):
    """np.save under the SpecFS contract: the file holds a copy of the array."""
    from .stubs_fs import Doc, SpecPath
    if not isinstance(file, SpecPath):
        raise Unsupported("np.save to a real path under the model")
    file.fs.files[file.p] = Doc(_np.array(_np.asarray(arr), copy=True), "npy")
    file.fs.effect("np.save", file.p)


def load(file, **kw):
    from .stubs_fs import Doc, SpecPath
    if not isinstance(file, SpecPath):
        raise Unsupported("np.load from a real path under the model")
    c = file.fs.files.get(file.p)
    if not isinstance(c, Doc) or c.kind != "npy":
        raise FileNotFoundError(file.p)
    return _W(_np.array(c.obj, copy=True))


class _Linalg:
    @staticmethod
    def norm(x, ord=None, axis=None, keepdims=False):
        if axis is not None or keepdims:
            raise Unsupported("linalg.norm with axis")
        if isinstance(x, GA):
            raise Unsupported("norm of guarded selection")
        arr = _obj(x)
        if arr.ndim != 1:
            if ord is None:
                arr = arr.ravel()
            else:
                raise Unsupported("matrix norms")
        cells = [SV.lift(c) for c in arr.flat]
        if ord == 1:
            s = SV(c=Fraction(0))
            for c in cells:
                s = s + _b.abs(c)
            return s
        if ord == _np.inf:
            if not cells:
                raise ValueError("zero-size array to reduction operation maximum which has no identity")
            return _red_cells([_b.abs(c) for c in cells], [SB(c=True)] * len(cells), "max")
        if ord is None or ord == 2:
            s = SV(c=Fraction(0))
            for c in cells:
                s = s + c * c
            return sqrt(s)
        raise Unsupported(f"linalg.norm ord={ord}")


linalg = _Linalg()


def py_red(name, args, kw):
    """Symbolic-aware builtin min/max."""
    key = kw.get("key")
    if len(args) == 1 and not kw.get("default"):
        seq = args[0]
        if isinstance(seq, GA):
            return _red(seq, name)
        args = list(seq)
        if not args:
            return getattr(_b, name)(args, **kw)
    if key is not None or not _b.any(isinstance(a, (SV, SB)) and a.c is None for a in args):
        if _b.any(isinstance(a, SV) for a in args) and key is None:
            vals = [SV.lift(a) for a in args]
            best = vals[0]
            for a in vals[1:]:
                if (a.c > best.c) if name == "max" else (a.c < best.c):
                    best = a
            return best
        return getattr(_b, name)(args, **kw)
    m = SV.lift(args[0])
    for a in args[1:]:
        a = SV.lift(a)
        x, y = a.zr(), m.zr()
        m = SV(t=z3.If((x > y) if name == "max" else (x < y), x, y))
    return m


def py_min(*a, **k):
    return py_red("min", a, k)


def py_max(*a, **k):
    return py_red("max", a, k)


class _Random:
    """np.random.* : every draw is a fresh symbol constrained only by its support (A6)."""

    def __getattr__(self, name):
        from . import rng
        return getattr(rng.MODULE_RANDOM, name)


random = _Random()


def __getattr__(name):
    return getattr(_np, name)
