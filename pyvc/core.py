"""pyvc core: exact-or-symbolic scalars and the path manager.

SV  exact-or-symbolic real (Fraction or z3 Real/Int term)
SB  exact-or-symbolic Boolean (bool or z3 Bool term)
CTX the path manager: path condition, guard stack, forking by re-execution,
    obligation recording.
"""
from __future__ import annotations

import time
from fractions import Fraction

import numpy as _np
import z3


class Undecided(Exception):
    """The engine cannot decide something (solver unknown, budget exceeded)."""


class Unsupported(Exception):
    """The code did something the symbolic semantics does not cover."""


class PathInfeasible(Exception):
    """Internal: the current path has an unsatisfiable path condition."""


class PathPruned(Exception):
    """Internal: the path was cut by a stated exploration bound (e.g. more than k re-draws of a rejection loop)."""


class StopPath(Exception):
    """Internal: a cut loop's arbitrary iteration has ended; the path stops here."""


class Obligation:
    __slots__ = ("name", "hyps", "clause", "meta")

    def __init__(self, name, hyps, clause, meta=None):
        self.name = name
        self.hyps = hyps          # list of z3 Bool (pre + path condition + guards)
        self.clause = clause      # z3 Bool that must follow
        self.meta = meta or {}


class Ctx:
    def __init__(self):
        self.solver_time = 0.0
        self.feas_queries = 0
        self.max_paths = 4096
        self.feas_timeout_ms = 20000
        self.reset_path([])

    def reset_path(self, decisions):
        self.decisions = list(decisions)   # forced prefix
        self.taken = []                    # decisions taken on this path
        self.pc = []                       # assumptions + path condition (z3 Bool)
        self.pending = []                  # alternative prefixes discovered on this path
        self.guards = []                   # guard-context stack (SB)
        self.obligations = []              # Obligation objects recorded on this path
        self.notes = {}                    # scenario scratch
        self.early_close = None            # guards of a symbolic guard context that was left early
        self._solver = z3.Solver()
        self._solver.set("timeout", self.feas_timeout_ms)

    # -- assumptions / path condition ------------------------------------------------
    def tick(self):
        """Called by every engine operation: continuing after leaving a guarded iteration early is unsupported."""
        if self.early_close is not None:
            self.early_close = None
            raise Unsupported("break/return out of an iteration over a symbolically guarded selection")

    def assume(self, cond):
        """Add a precondition / assumption to the current path (under the current guards)."""
        self.tick()
        if isinstance(cond, SB):
            if cond.c is True:
                return
            cond = cond.z()
        elif isinstance(cond, bool):
            if cond:
                return
            cond = z3.BoolVal(False)
        gt = self.guard_terms()
        if gt:
            cond = z3.Implies(z3.And(*gt), cond)
        self.pc.append(cond)
        self._solver.add(cond)

    def guard_terms(self):
        return [g.z() for g in self.guards if g.c is not True]

    def feasible(self, extra):
        t0 = time.time()
        self.feas_queries += 1
        r = self._solver.check(*([extra] + self.guard_terms()))
        self.solver_time += time.time() - t0
        if r == z3.unknown:
            raise Undecided("feasibility query returned unknown")
        return r == z3.sat

    def branch(self, cond):
        """cond: z3 Bool.  Return a Python bool, recording the fork."""
        self.tick()
        k = len(self.taken)
        forked = True
        if k < len(self.decisions):
            d = self.decisions[k]
        else:
            t = self.feasible(cond)
            f = self.feasible(z3.Not(cond))
            if t and f:
                self.pending.append(self.taken + [False])
                d = True
            elif t:
                d, forked = True, False
            elif f:
                d, forked = False, False
            else:
                raise PathInfeasible()
        self.taken.append(d)
        c = cond if d else z3.Not(cond)
        gt = self.guard_terms()
        if gt and not forked:
            # decided under the current guards only: nothing to add (pc and guards already imply it)
            return d
        # a genuine fork: the two paths pc+c and pc+not c together cover every world, also those in
        # which the current guards are false (there the guarded effects are no-ops on either path)
        self.pc.append(c)
        self._solver.add(c)
        return d

    def choose(self, k):
        """Nondeterministic choice in range(k): explored exhaustively by forking."""
        self.tick()
        if self.guard_terms():
            raise Unsupported("nondeterministic choice inside a guard context")
        j = len(self.taken)
        if j < len(self.decisions):
            d = self.decisions[j]
        else:
            d = 0
            for alt in range(k - 1, 0, -1):
                self.pending.append(self.taken + [alt])
        self.taken.append(d)
        return d

    # -- obligations ------------------------------------------------------------------
    def oblige(self, name, clause, **meta):
        self.tick()
        if isinstance(clause, SB):
            clause = clause.z()
        elif isinstance(clause, (bool, _np.bool_)):
            clause = z3.BoolVal(bool(clause))
        self.obligations.append(Obligation(name, list(self.pc) + self.guard_terms(), clause, meta))


CTX = Ctx()


def _frac_z(v: Fraction):
    if v.denominator == 1:
        return z3.RealVal(v.numerator)
    return z3.RealVal(str(v))


def _c(v):
    """Concrete exact value of v, or None."""
    if isinstance(v, SV):
        return v.c
    if isinstance(v, SB):
        return None if v.c is None else Fraction(int(v.c))
    if isinstance(v, _np.generic):
        v = v.item()
    if isinstance(v, bool):
        return Fraction(int(v))
    if isinstance(v, int):
        return Fraction(v)
    if isinstance(v, Fraction):
        return v
    if isinstance(v, float):
        if v != v or v in (float("inf"), float("-inf")):
            raise Unsupported("nan/inf entering exact arithmetic")
        return Fraction(v)
    return None


def _to_real(t):
    return z3.ToReal(t) if t.sort() == z3.IntSort() else t


class SV:
    """Exact-or-symbolic real scalar."""

    __slots__ = ("c", "t")

    def __init__(self, c=None, t=None):
        self.c = c
        self.t = t

    def __deepcopy__(self, memo):
        return self            # immutable value

    def __copy__(self):
        return self

    @staticmethod
    def lift(v):
        if isinstance(v, SV):
            return v
        if isinstance(v, SB):
            if v.c is not None:
                return SV(c=Fraction(int(v.c)))
            return SV(t=z3.If(v.t, z3.RealVal(1), z3.RealVal(0)))
        c = _c(v)
        if c is None:
            raise TypeError(f"cannot lift {type(v)} {v!r}")
        return SV(c=c)

    @property
    def is_sym(self):
        return self.c is None

    def z(self):
        return self.t if self.c is None else _frac_z(self.c)

    def zr(self):
        return _to_real(self.z())

    def _bin(self, o, fc, fz):
        try:
            o = SV.lift(o)
        except TypeError:
            return NotImplemented
        if self.c is not None and o.c is not None:
            return SV(c=fc(self.c, o.c))
        a, b = self.z(), o.z()
        if a.sort() != b.sort():
            a, b = _to_real(a), _to_real(b)
        return SV(t=fz(a, b))

    def __add__(s, o):
        if isinstance(o, SV) and o.c is not None and o.c == 0:
            return s
        if s.c is not None and s.c == 0 and isinstance(o, SV):
            return o
        return s._bin(o, lambda a, b: a + b, lambda a, b: a + b)

    __radd__ = __add__

    def __sub__(s, o):
        return s._bin(o, lambda a, b: a - b, lambda a, b: a - b)

    def __rsub__(s, o):
        return SV.lift(o).__sub__(s)

    def __mul__(s, o):
        try:
            o = SV.lift(o)
        except TypeError:
            return NotImplemented
        if s.c is not None and o.c is not None:
            return SV(c=s.c * o.c)
        for a, b in ((s, o), (o, s)):
            if a.c is not None:
                if a.c == 0:
                    return SV(c=Fraction(0))
                if a.c == 1:
                    return b
        return s._bin(o, None, lambda a, b: a * b)

    __rmul__ = __mul__

    def __truediv__(s, o):
        try:
            o = SV.lift(o)
        except TypeError:
            return NotImplemented
        if o.c is not None:
            if o.c == 0:
                raise Unsupported("division by concrete zero (numpy would give inf/nan)")
            if s.c is not None:
                return SV(c=s.c / o.c)
            return SV(t=s.zr() * _frac_z(1 / o.c))
        # symbolic divisor: numpy would produce inf/nan on zero -> obligation
        CTX.oblige("div.nonzero", o.zr() != 0, kind="division")
        return SV(t=s.zr() / o.zr())

    def __rtruediv__(s, o):
        return SV.lift(o).__truediv__(s)

    def __pow__(s, o):
        if isinstance(o, int) and o >= 0:
            r = SV(c=Fraction(1))
            for _ in range(o):
                r = r * s
            return r
        return NotImplemented

    def __neg__(s):
        return SV(c=-s.c) if s.c is not None else SV(t=-s.t)

    def __pos__(s):
        return s

    def __abs__(s):
        return SV(c=abs(s.c)) if s.c is not None else SV(t=z3.If(s.t >= 0, s.t, -s.t))

    def _cmp(self, o, fc, fz):
        if isinstance(o, SB):
            o = SV.lift(o)
        try:
            o = SV.lift(o)
        except TypeError:
            return NotImplemented
        if self.c is not None and o.c is not None:
            return SB(c=fc(self.c, o.c))
        a, b = self.z(), o.z()
        if a.sort() != b.sort():
            a, b = _to_real(a), _to_real(b)
        return SB(t=fz(a, b))

    def __eq__(s, o):
        if o is None:
            return False
        return s._cmp(o, lambda a, b: a == b, lambda a, b: a == b)

    def __ne__(s, o):
        if o is None:
            return True
        return s._cmp(o, lambda a, b: a != b, lambda a, b: a != b)

    def __lt__(s, o):
        return s._cmp(o, lambda a, b: a < b, lambda a, b: a < b)

    def __le__(s, o):
        return s._cmp(o, lambda a, b: a <= b, lambda a, b: a <= b)

    def __gt__(s, o):
        return s._cmp(o, lambda a, b: a > b, lambda a, b: a > b)

    def __ge__(s, o):
        return s._cmp(o, lambda a, b: a >= b, lambda a, b: a >= b)

    __hash__ = None

    def __bool__(s):
        return bool(s != 0)

    def __repr__(s):
        return f"SV({s.c if s.c is not None else s.t})"

    def __float__(s):
        if s.c is None:
            raise Unsupported("float() of a symbolic value")
        return float(s.c)

    def __int__(s):
        if s.c is None:
            raise Unsupported("int() of a symbolic value")
        return int(s.c)

    def __index__(s):
        if s.c is None or s.c.denominator != 1:
            raise Unsupported("symbolic or fractional value used as an index")
        return int(s.c)

    def __round__(s, nd=None):
        if s.c is None:
            raise Unsupported("round() of a symbolic value")
        return round(s.c, nd)

    # numpy scalar look-alikes used by the repository
    def item(s):
        return s

    def astype(s, _dt):
        return s

    @property
    def shape(s):
        return ()

    @property
    def ndim(s):
        return 0


class SB:
    """Exact-or-symbolic Boolean."""

    __slots__ = ("c", "t")

    def __init__(self, c=None, t=None):
        self.c = c
        self.t = t

    def __deepcopy__(self, memo):
        return self            # immutable value

    def __copy__(self):
        return self

    @staticmethod
    def lift(v):
        if isinstance(v, SB):
            return v
        if isinstance(v, (bool, _np.bool_)):
            return SB(c=bool(v))
        if isinstance(v, SV):
            return v != 0
        if isinstance(v, (int, Fraction, float, _np.generic)):
            return SB(c=bool(v))
        if z3.is_bool(v):
            return SB(t=v)
        raise TypeError(f"cannot lift {type(v)} to SB")

    @property
    def is_sym(self):
        return self.c is None

    def z(self):
        return self.t if self.c is None else z3.BoolVal(self.c)

    def __bool__(s):
        if s.c is not None:
            return s.c
        return CTX.branch(s.t)

    def __invert__(s):
        return SB(c=not s.c) if s.c is not None else SB(t=z3.Not(s.t))

    def __and__(s, o):
        try:
            o = SB.lift(o)
        except TypeError:
            return NotImplemented
        if s.c is not None:
            return o if s.c else SB(c=False)
        if o.c is not None:
            return s if o.c else SB(c=False)
        return SB(t=z3.And(s.t, o.t))

    __rand__ = __and__

    def __or__(s, o):
        try:
            o = SB.lift(o)
        except TypeError:
            return NotImplemented
        if s.c is not None:
            return SB(c=True) if s.c else o
        if o.c is not None:
            return SB(c=True) if o.c else s
        return SB(t=z3.Or(s.t, o.t))

    __ror__ = __or__

    def __xor__(s, o):
        o = SB.lift(o)
        if s.c is not None and o.c is not None:
            return SB(c=s.c != o.c)
        return SB(t=z3.Xor(s.z(), o.z()))

    __rxor__ = __xor__

    # Booleans are numbers in numpy: arithmetic coerces to 0/1
    def __mul__(s, o):
        if isinstance(o, SB) or isinstance(o, (bool, _np.bool_)):
            return s.__and__(o)
        return SV.lift(s) * o

    __rmul__ = __mul__

    def __add__(s, o):
        return SV.lift(s) + SV.lift(o)

    __radd__ = __add__

    def __sub__(s, o):
        return SV.lift(s) - SV.lift(o)

    def __rsub__(s, o):
        return SV.lift(o) - SV.lift(s)

    def __neg__(s):
        return -SV.lift(s)

    def __eq__(s, o):
        if o is None:
            return False
        if isinstance(o, SV) or isinstance(o, (int, float, Fraction)) and not isinstance(o, bool):
            return SV.lift(s) == o
        o = SB.lift(o)
        if s.c is not None and o.c is not None:
            return SB(c=s.c == o.c)
        return SB(t=s.z() == o.z())

    def __ne__(s, o):
        return ~(s == o)

    def __lt__(s, o):
        return SV.lift(s) < o

    def __le__(s, o):
        return SV.lift(s) <= o

    def __gt__(s, o):
        return SV.lift(s) > o

    def __ge__(s, o):
        return SV.lift(s) >= o

    __hash__ = None

    def __repr__(s):
        return f"SB({s.c if s.c is not None else s.t})"

    def astype(s, dt):
        return s


def ite(g, a, b):
    """if-then-else over SB g and values a, b (SV or SB or natives)."""
    g = SB.lift(g)
    if g.c is not None:
        return a if g.c else b
    if isinstance(a, (SB, bool, _np.bool_)) and isinstance(b, (SB, bool, _np.bool_)):
        a = SB.lift(a)
        b = SB.lift(b)
        return SB(t=z3.If(g.t, a.z(), b.z()))
    a = SV.lift(a)
    b = SV.lift(b)
    if a.c is not None and b.c is not None and a.c == b.c:
        return a
    x, y = a.z(), b.z()
    if x.sort() != y.sort():
        x, y = _to_real(x), _to_real(y)
    if x.eq(y):
        return a
    return SV(t=z3.If(g.t, x, y))


def guard_now():
    g = SB(c=True)
    for x in CTX.guards:
        g = g & x
    return g


class PathResult:
    __slots__ = ("pc", "kind", "value", "obligations", "decisions", "notes")

    def __init__(self, pc, kind, value, obligations, decisions, notes):
        self.pc = pc
        self.kind = kind            # 'ok' | 'raise' | 'stop'
        self.value = value
        self.obligations = obligations
        self.decisions = decisions
        self.notes = notes


PRUNED = [0]


def explore_one(fn, dec):
    """Run fn() along the path with decision prefix `dec`; returns (PathResult or None, pending prefixes)."""
    CTX.reset_path(dec)
    try:
        r = ("ok", fn())
    except PathInfeasible:
        return None, []
    except PathPruned:
        PRUNED[0] += 1
        return None, list(CTX.pending)
    except StopPath:
        r = ("stop", None)
    except (Undecided, Unsupported):
        raise
    except Exception as e:  # an exception of the code under verification
        r = ("raise", e)
        if CTX.early_close is not None:   # raised inside a guarded iteration: holds only under its guards
            CTX.pc.extend(CTX.early_close)
            CTX.early_close = None
    if CTX.early_close is not None:
        raise Unsupported("break/return out of an iteration over a symbolically guarded selection")
    pr = PathResult(list(CTX.pc), r[0], r[1], list(CTX.obligations), list(CTX.taken), dict(CTX.notes))
    return pr, list(CTX.pending)


def explore(fn, max_paths=None, start=None, budget_s=None):
    """Run fn() along every feasible path (below the prefixes in `start`); return a list of PathResult."""
    work = [list(d) for d in start] if start else [[]]
    out = []
    limit = max_paths or CTX.max_paths
    t_end = time.time() + budget_s if budget_s else None
    while work:
        if t_end is not None and time.time() > t_end:
            raise Undecided(f"exploration time budget exceeded ({budget_s}s, {len(out)} paths done, {len(work)} pending)")
        dec = work.pop()
        pr, pending = explore_one(fn, dec)
        if pr is not None:
            out.append(pr)
        work.extend(pending)
        if len(out) + len(work) > limit:
            raise Undecided(f"path budget exceeded ({limit})")
    return out
