"""Discharge obligations: z3 in a fork()ed worker pool, cvc5 for what z3 leaves open."""
from __future__ import annotations

import multiprocessing as mp
import os
import signal
import subprocess
import tempfile
import time
from fractions import Fraction

import z3

_TASKS = []          # set before the pool forks; workers index into it


class Task:
    __slots__ = ("name", "hyps", "clause", "inputs", "meta", "want_sat")

    def __init__(self, name, hyps, clause, inputs, meta=None, want_sat=False):
        self.name = name
        self.hyps = hyps
        self.clause = clause
        self.inputs = inputs      # name -> z3 const: what a counterexample must assign
        self.meta = meta or {}
        self.want_sat = want_sat  # canaries/covers: 'sat' is the expected answer


class Result:
    __slots__ = ("name", "status", "model", "seconds", "backend", "meta", "want_sat", "detail")

    def __init__(self, name, status, model, seconds, backend, meta, want_sat, detail=""):
        self.name = name
        self.status = status      # 'unsat' | 'sat' | 'unknown'
        self.model = model        # name -> str (rational) | bool
        self.seconds = seconds
        self.backend = backend
        self.meta = meta
        self.want_sat = want_sat
        self.detail = detail


class _Timeout(Exception):
    pass


def _alarm(signum, frame):
    raise _Timeout()


def _val_str(m, const):
    v = m.eval(const, model_completion=True)
    if z3.is_bool(v):
        return z3.is_true(v)
    if z3.is_int_value(v) or z3.is_bv_value(v):
        return str(v.as_long())
    if z3.is_rational_value(v):
        return str(Fraction(v.numerator_as_long(), v.denominator_as_long()))
    if z3.is_algebraic_value(v):
        a = v.approx(30)
        return str(Fraction(a.numerator_as_long(), a.denominator_as_long()))
    return str(v)


def _extract(m, inputs):
    return {k: _val_str(m, c) for k, c in inputs.items()}


def _cvc5(smt2, timeout_s):
    with tempfile.NamedTemporaryFile("w", suffix=".smt2", delete=False) as f:
        f.write("(set-logic ALL)\n" + smt2)
        path = f.name
    try:
        p = subprocess.run(["/usr/bin/cvc5", "--lang=smt2", f"--tlimit={int(timeout_s * 1000)}", path],
                           capture_output=True, text=True, timeout=timeout_s + 10)
        out = p.stdout.strip().splitlines()
        return out[0] if out else "unknown"
    except Exception:
        return "unknown"
    finally:
        os.unlink(path)


def _solve_one(args):
    idx, timeout_s, use_cvc5, nice_model = args
    t = _TASKS[idx]
    t0 = time.time()
    s = z3.Solver()
    first = min(timeout_s, 8.0) if use_cvc5 else timeout_s
    s.set("timeout", int(first * 1000))
    s.add(*t.hyps)
    s.add(z3.Not(t.clause))
    backend = "z3"
    status, model, detail = "unknown", None, ""
    signal.signal(signal.SIGALRM, _alarm)

    def z3_round(budget):
        nonlocal status, model, detail
        signal.alarm(int(budget) + 20)
        try:
            s.set("timeout", int(budget * 1000))
            r = s.check()
            status = str(r)
            if r == z3.sat:
                m = s.model()
                model = _extract(m, t.inputs)
                if nice_model:
                    # try to find a counterexample whose reals are multiples of 1/64 (exact in float64)
                    try:
                        s.push()
                        s.set("timeout", 3000)
                        for c in t.inputs.values():
                            if z3.is_real(c):
                                s.add(z3.IsInt(c * 64), c <= 1 << 20, c >= -(1 << 20))
                        if s.check() == z3.sat:
                            model = _extract(s.model(), t.inputs)
                            detail = "dyadic"
                        s.pop()
                    except (z3.Z3Exception, _Timeout):
                        pass
            elif r == z3.unknown:
                detail = s.reason_unknown()
        except _Timeout:
            status, detail = "unknown", "hard timeout"
        except z3.Z3Exception as e:
            status, detail = "unknown", f"z3 exception {e}"
        finally:
            signal.alarm(0)

    z3_round(first)
    if status == "unknown" and use_cvc5:
        try:
            smt2 = s.to_smt2()
            r = _cvc5(smt2, timeout_s)
            if r == "unsat":
                status, backend = "unsat", "cvc5"
            elif r == "sat":
                detail += " cvc5:sat(no model)"
        except Exception as e:  # pragma: no cover
            detail += f" cvc5 failed: {e}"
        if status == "unknown" and timeout_s > first:
            z3_round(timeout_s)
    return Result(t.name, status, model, time.time() - t0, backend, t.meta, t.want_sat, detail)


def discharge(tasks, timeout_s=60, procs=None, use_cvc5=True, nice_model=True):
    """Solve all tasks; returns a list of Result in task order."""
    global _TASKS
    if not tasks:
        return []
    procs = procs or min(16, os.cpu_count() or 1)
    _TASKS = list(tasks)
    args = [(i, timeout_s, use_cvc5, nice_model) for i in range(len(_TASKS))]
    if len(_TASKS) <= 2 or procs == 1:
        return [_solve_one(a) for a in args]
    ctx = mp.get_context("fork")
    with ctx.Pool(min(procs, len(_TASKS))) as pool:
        out = pool.map(_solve_one, args, chunksize=1 if len(args) < 20000 else 4)
    _TASKS = []
    return out
