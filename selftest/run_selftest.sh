#!/bin/sh
# Apply each self-test patch to a scratch copy of /repo and run the expected checks:
# every mutant must end in VIOLATION (exit 1) for at least its first listed check; every equivalent refactor must stay exit 0.
cd "$(dirname "$0")/.."
python3 selftest/make_mutants.py || exit 3
FAIL=0
run_one() { # kind name checks...
  kind=$1; name=$2; shift 2
  for id in "$@"; do
    S=$(mktemp -d /tmp/selftest.XXXXXX)
    cp -r /repo/incomplete_cooperative "$S/"
    (cd "$S" && patch -p1 -s < "$OLDPWD/selftest/$kind/$name.diff") || { echo "PATCH-FAILED $name"; FAIL=1; rm -rf "$S"; continue; }
    OUT=$(REPO_ROOT="$S" bin/check "$id" --tier quick 2>&1); RC=$?
    rm -rf "$S"
    LINE=$(echo "$OUT" | grep -E "^$id " | tail -1 | cut -c1-150)
    if [ "$kind" = mutants ]; then
      if [ $RC -eq 1 ]; then echo "caught    $name by $id: $(echo "$OUT" | grep -c '^VIOLATION') violation line(s)"; else echo "MISSED    $name by $id (exit $RC) $LINE"; [ "$id" = "$1" ] && FAIL=1; fi
    else
      if [ $RC -eq 0 ]; then echo "quiet     $name under $id"; else echo "FALSE-ALARM $name under $id (exit $RC) $LINE"; FAIL=1; fi
    fi
  done
}
FILTER=${1:-.}
while read name checks; do echo "$name" | grep -q "$FILTER" && run_one mutants $name $checks; done < selftest/mutants/INDEX.txt
while read name checks; do echo "$name" | grep -q "$FILTER" && run_one equivalent $name $checks; done < selftest/equivalent/INDEX.txt
if echo EQ_sam_refactor_early_exit | grep -q "$FILTER"; then mkdir -p selftest/equivalent; cp selftest/equivalent_handwritten/EQ_sam_refactor_early_exit.diff selftest/equivalent/; run_one equivalent EQ_sam_refactor_early_exit C04; fi
exit $FAIL
