#!/usr/bin/env python3
"""Generate the self-test patches (property-breaking mutants and semantics-preserving refactors) as diffs against
the current /repo sources.  Each entry: (name, expected check ids, file, old text, new text)."""
import difflib, os, sys
REPO = os.environ.get("REPO_ROOT", "/repo")
HERE = os.path.dirname(os.path.abspath(__file__))

MUTANTS = [
 ("C01_upper_uses_upper_of_complement", ["C01"], "incomplete_cooperative/bounds.py",
  "        upper_bound = np.min(game.get_lower_bounds()[known_super_coalitions] - game.get_lower_bounds()[complementary_coalitions])\n        game.set_upper_bound(upper_bound, Coalition(coalition))\n\n\ndef compute_bounds_superadditive_monotone",
  "        upper_bound = np.min(game.get_lower_bounds()[known_super_coalitions] - game.get_upper_bounds()[complementary_coalitions])\n        game.set_upper_bound(upper_bound, Coalition(coalition))\n\n\ndef compute_bounds_superadditive_monotone"),
 ("C02_uncached_lower_ignores_largest_split", ["C02", "C03"], "incomplete_cooperative/bounds.py",
  "        sub_coalitions = [x for x in get_sub_coalitions(coalition) if x != coalition and x != Coalition(0)]\n",
  "        sub_coalitions = [x for x in get_sub_coalitions(coalition) if x != coalition and x != Coalition(0) and (len(coalition) < 4 or len(x) != 2)]\n"),
 ("C03_cache_keyed_wrongly", ["C03"], "incomplete_cooperative/bounds.py",
  "    all_coalitions, all_sorted, coal_structure = _get_sub_super_coalition_structure(game.number_of_players)\n    unknown_sorted = all_sorted[np.logical_not(game.are_values_known()[all_sorted])]\n    for coalition in unknown_sorted:\n        sub_coalitions = all_coalitions[coal_structure[coalition] == 1]\n        complementary_coalitions = coalition ^ sub_coalitions\n        lower_bound = np.max(game.get_lower_bounds()[sub_coalitions] + game.get_lower_bounds()[complementary_coalitions])\n        game.set_lower_bound(lower_bound, Coalition(coalition))\n\n    for coalition in unknown_sorted:\n        super_coalitions = all_coalitions[coal_structure[coalition] == 2]\n        known_super_coalitions = super_coalitions[game.are_values_known()[super_coalitions]]\n        complementary_coalitions = coalition ^ known_super_coalitions\n        upper_bound = np.min(game.get_lower_bounds()[known_super_coalitions] - game.get_lower_bounds()[complementary_coalitions])\n        game.set_upper_bound(upper_bound, Coalition(coalition))\n\n\ndef compute_bounds_superadditive_monotone",
  "    all_coalitions, all_sorted, coal_structure = _get_sub_super_coalition_structure(game.number_of_players)\n    unknown_sorted = all_sorted[np.logical_not(game.are_values_known()[all_sorted])]\n    for coalition in unknown_sorted:\n        sub_coalitions = all_coalitions[coal_structure[coalition] == 1]\n        complementary_coalitions = coalition ^ sub_coalitions\n        lower_bound = np.max(game.get_lower_bounds()[sub_coalitions] + game.get_lower_bounds()[complementary_coalitions])\n        game.set_lower_bound(lower_bound, Coalition(coalition))\n\n    for coalition in unknown_sorted:\n        super_coalitions = all_coalitions[coal_structure[coalition] == 2]\n        known_super_coalitions = super_coalitions[game.are_values_known()[super_coalitions]]\n        complementary_coalitions = coalition ^ known_super_coalitions\n        upper_bound = np.min(game.get_lower_bounds()[known_super_coalitions] - game.get_lower_bounds()[complementary_coalitions])\n        game.set_upper_bound(upper_bound, Coalition(coalition))\n    coal_structure[0, 0] += 0\n    if game.number_of_players == 4:\n        coal_structure[3, 7] = -1  # 'optimisation' that mutates the memoised structure\n\n\ndef compute_bounds_superadditive_monotone"),
 ("C04_closure_over_subcoalitions", ["C04"], "incomplete_cooperative/bounds.py",
  "            super_coalitions = all_coalitions[np.logical_or(coal_structure[coalition] == 2, coal_structure[coalition] == 0)]\n            lower_bound = np.max(game.get_lower_bounds()[super_coalitions])",
  "            super_coalitions = all_coalitions[np.logical_or(coal_structure[coalition] == 1, coal_structure[coalition] == 0)]\n            lower_bound = np.max(game.get_lower_bounds()[super_coalitions])"),
 ("C05_weight_of_one_size_off", ["C05", "C06"], "incomplete_cooperative/shapley.py",
  "    return np.fromiter((factorial(s) * factorial(number_of_players - s - 1) for s in range(number_of_players)),",
  "    return np.fromiter((factorial(s) * factorial(number_of_players - s - 1) + (1 if s == 2 and number_of_players > 4 else 0) for s in range(number_of_players)),"),
 ("C05_maxgain_lower_for_big_coalitions", ["C05"], "incomplete_cooperative/exploitability.py",
  "        coalitions_with_player = (1 if player in coalition else 0 for coalition in all_coalitions(game))",
  "        coalitions_with_player = (1 if player in coalition and len(coalition) < 4 else 0 for coalition in all_coalitions(game))"),
 ("C07_l2_linf_swapped", ["C07"], "incomplete_cooperative/norms.py",
  "l2_norm = partial(lp_norm, ord=2)\nl1_norm = partial(lp_norm, ord=1)\nlinf_norm = partial(lp_norm, ord=np.inf)",
  "l2_norm = partial(lp_norm, ord=np.inf)\nl1_norm = partial(lp_norm, ord=1)\nlinf_norm = partial(lp_norm, ord=2)"),
 ("C08_unset_keeps_bounds", ["C08", "C17"], "incomplete_cooperative/game.py",
  "        self._values[coalition.id, self._values_upper_index] = 0\n        self._values[coalition.id, self._values_lower_index] = 0\n        self._values[coalition.id, self._values_is_known_index] = 0",
  "        self._values[coalition.id, self._values_is_known_index] = 0"),
 ("C08_lower_pass_not_in_size_order", ["C08", "C01", "C02"], "incomplete_cooperative/bounds.py",
  "    all_sorted = get_all_coalitions(number_of_players)[np.argsort(sizes)]",
  "    all_sorted = get_all_coalitions(number_of_players)[np.argsort(-sizes, kind='stable')]"),
 ("C09_done_with_and", ["C09"], "incomplete_cooperative/icg_gym.py",
  "        ) or (\n            not np.any(self.action_masks())\n        ) or bool(np.all(",
  "        ) or (\n            not np.any(self.action_masks())\n        ) and bool(np.all("),
 ("C09_state_uses_unnormalised", ["C09"], "incomplete_cooperative/icg_gym.py",
  "        normalized_values = self.normalized_game.get_values(self.explorable_coalitions)",
  "        normalized_values = self.full_game.get_values(self.explorable_coalitions)"),
 ("C10_xos_not_negated_when_two", ["C10"], "incomplete_cooperative/generators.py",
  "    ig.set_values(-osx_values)  # turning the subadditive xos functions negative makes them superadditive\n    return ig",
  "    ig.set_values(-osx_values if number_of_additive != 2 else osx_values)  # turning the subadditive xos functions negative makes them superadditive\n    return ig"),
 ("C10_cycle_uses_global_rng", ["C10"], "incomplete_cooperative/generators.py",
  "    permutation = generator.permutation(number_of_players)",
  "    permutation = _gen.permutation(number_of_players)"),
 ("C11_permutations_instead_of_combinations", ["C11"], "incomplete_cooperative/gameplay.py",
  "    return chain.from_iterable(map(list, combinations(possible_actions, i))\n                               for i in range(max_size + 1))",
  "    from itertools import permutations\n    return chain.from_iterable(map(list, permutations(possible_actions, i))\n                               for i in range(max_size + 1))"),
 ("C11_best_states_keeps_first", ["C11"], "incomplete_cooperative/run/best_states.py",
  "                np.mean(best_exploitabilities[steps]) > np.mean(sample_values[:, i]):",
  "                np.mean(best_exploitabilities[steps]) > np.max(sample_values[:, i]):"),
 ("C12_episode_off_by_one", ["C12"], "incomplete_cooperative/evaluation.py",
  "        exploitability[episode + 1] = -reward\n",
  "        exploitability[episode + (1 if episode < 2 else 0)] = -reward\n"),
 ("C13_greedy_ties_to_last", ["C13"], "incomplete_cooperative/solvers/greedy.py",
  "        best_actions = (act for act, val in zip(valid_actions, action_values) if val == max_action_value)\n        return next(best_actions)",
  "        best_actions = [act for act, val in zip(valid_actions, action_values) if val == max_action_value]\n        return best_actions[-1]"),
 ("C13_largest_picks_smallest_when_many", ["C13"], "incomplete_cooperative/solvers/largest_coalition.py",
  "        max_coalition_size = max(map(len, valid_coalitions))",
  "        max_coalition_size = max(map(len, valid_coalitions)) if len(valid_coalitions) < 6 else min(map(len, valid_coalitions))"),
 ("C14_plus_clipping_sign", ["C14"], "incomplete_cooperative/regret.py",
  "            self.cumulative_regret *= self.cumulative_regret > 0",
  "            self.cumulative_regret *= self.cumulative_regret >= -1"),
 ("C15_divide_before_subtracting", ["C15", "C09"], "incomplete_cooperative/normalize.py",
  "    singletons = map(lambda x: player_to_coalition(x), range(game.number_of_players))\n    for singleton in singletons:\n        singleton_value = game.get_value(singleton)",
  "    singletons = map(lambda x: player_to_coalition(x), range(game.number_of_players))\n    grand_coalition_value = game.get_value(grand_coalition(game))\n    for singleton in singletons:\n        singleton_value = game.get_value(singleton)"),
 ("C15_divide_before_subtracting_b", ["C15", "C09"], "incomplete_cooperative/normalize.py",
  "    grand_coalition_value = game.get_value(grand_coalition(game))\n\n    if not grand_coalition_value:\n        return\n\n    upper_bounds = game.get_upper_bounds()",
  "    if not grand_coalition_value:\n        return\n\n    upper_bounds = game.get_upper_bounds()"),
 ("C16_mask_ignores_size_filter", ["C16"], "incomplete_cooperative/icg_gym_linear.py",
  "        candidates = np.where((self.subset_sizes == coalition_size) * self.icg_gym.action_masks())[0]",
  "        candidates = np.where((self.subset_sizes >= coalition_size) * self.icg_gym.action_masks())[0]"),
 ("C17_bulk_setter_without_known_mask", ["C17"], "incomplete_cooperative/game.py",
  "        relevant_positions = np.invert(self.are_values_known()) * self._get_coalition_map(coalitions, len(values))\n        np.copyto(self._values[:, self._values_lower_index], all_values, where=relevant_positions)",
  "        relevant_positions = self._get_coalition_map(coalitions, len(values))\n        np.copyto(self._values[:, self._values_lower_index], all_values, where=relevant_positions)"),
 ("C18_sub_with_xor", ["C18"], "incomplete_cooperative/coalitions.py",
  "            return Coalition(self.id & ~other.id)",
  "            return Coalition(self.id ^ (self.id & other.id) if self.id < 4096 else self.id ^ other.id)"),
 ("C19_overwrite_existing_name", ["C19"], "incomplete_cooperative/run/save.py",
  "    if unique_name in data.keys():\n        return\n",
  "    if unique_name in data.keys() and len(data) < 3:\n        return\n"),
 ("C20_write_in_place_again", ["C20"], "incomplete_cooperative/run/save.py",
  "    tmp_path = path.with_name(path.name + \".tmp\")\n    with tmp_path.open(\"w\") as f:\n        json.dump(data, f, default=json_serializer)\n    tmp_path.replace(path)",
  "    with path.open(\"w\") as f:\n        json.dump(data, f, default=json_serializer)"),
]

EQUIVALENT = [
 ("EQ_cached_renamed_locals_and_method_max", ["C01", "C02", "C03", "C08"], "incomplete_cooperative/bounds.py",
  "        lower_bound = np.max(game.get_lower_bounds()[sub_coalitions] + game.get_lower_bounds()[complementary_coalitions])\n        game.set_lower_bound(lower_bound, Coalition(coalition))\n\n    for coalition in unknown_sorted:\n        super_coalitions = all_coalitions[coal_structure[coalition] == 2]\n        known_super_coalitions = super_coalitions[game.are_values_known()[super_coalitions]]",
  "        lows = game.get_lower_bounds()\n        best_split = (lows[sub_coalitions] + lows[complementary_coalitions]).max()\n        game.set_lower_bound(best_split, Coalition(coalition))\n\n    for coalition in unknown_sorted:\n        super_coalitions = all_coalitions[coal_structure[coalition] == 2]\n        known_super_coalitions = super_coalitions[game.are_values_known()[super_coalitions]]"),
 ("EQ_uncached_list_instead_of_filter", ["C01", "C02", "C03"], "incomplete_cooperative/bounds.py",
  "    for coalition in filter(lambda x: not game.is_value_known(x), all_coalitions(game)):\n        known_super_coalitions",
  "    for coalition in [x for x in all_coalitions(game) if not game.is_value_known(x)]:\n        known_super_coalitions"),
 ("EQ_exploitability_helper_extracted", ["C05", "C07"], "incomplete_cooperative/exploitability.py",
  "    max_gain_games = (MaxGainGame(game, player) for player in range(game.number_of_players))\n    max_shapley_values = map(lambda game: compute_shapley_value_for_player(game.player, game),\n                             max_gain_games)\n    return sum(max_shapley_values) - game.get_value(grand_coalition(game))",
  "    total = 0\n    for player in range(game.number_of_players):\n        total = total + compute_shapley_value_for_player(player, MaxGainGame(game, player))\n    return total - game.get_value(grand_coalition(game))"),
 ("EQ_game_set_value_reordered", ["C17", "C08"], "incomplete_cooperative/game.py",
  "        self._values[coalition.id, self._values_upper_index] = value\n        self._values[coalition.id, self._values_lower_index] = value\n        self._values[coalition.id, self._values_is_known_index] = 1",
  "        row = coalition.id\n        self._values[row, self._values_is_known_index] = 1\n        self._values[row, self._values_lower_index] = value\n        self._values[row, self._values_upper_index] = value"),
 ("EQ_gym_done_reordered", ["C09"], "incomplete_cooperative/icg_gym.py",
  "        return (\n            self.done_after_n_actions is not None and self.steps_taken >= self.done_after_n_actions\n        ) or (\n            not np.any(self.action_masks())\n        ) or bool(np.all(\n            (self.incomplete_game.get_upper_bounds() - self.incomplete_game.get_lower_bounds()) == 0\n        ))",
  "        budget_used = self.done_after_n_actions is not None and self.steps_taken >= self.done_after_n_actions\n        nothing_left = not np.any(self.action_masks())\n        widths = self.incomplete_game.get_upper_bounds() - self.incomplete_game.get_lower_bounds()\n        return budget_used or nothing_left or bool(np.all(widths == 0))"),
]


def make(entries, outdir):
    os.makedirs(outdir, exist_ok=True)
    index = []
    for name, checks, path, old, new in entries:
        src = open(os.path.join(REPO, path)).read()
        if old not in src:
            print("!! pattern not found for", name, file=sys.stderr)
            continue
        dst = src.replace(old, new, 1)
        if "Coalition_(" in dst:
            dst = dst.replace("Coalition_(", "__import__('incomplete_cooperative.coalitions', fromlist=['Coalition']).Coalition(")
        diff = "".join(difflib.unified_diff(src.splitlines(True), dst.splitlines(True), "a/" + path, "b/" + path))
        open(os.path.join(outdir, name + ".diff"), "w").write(diff)
        index.append((name, checks))
    with open(os.path.join(outdir, "INDEX.txt"), "w") as f:
        for name, checks in index:
            f.write(f"{name} {' '.join(checks)}\n")


make(MUTANTS, os.path.join(HERE, "mutants"))
make(EQUIVALENT, os.path.join(HERE, "equivalent"))
print("generated", len(MUTANTS), "mutants and", len(EQUIVALENT), "equivalent refactors")
